"""C06 -- JSON rate repository (DESIGN section 5, C06).

Every add_/update_/get_ function of cherab/openadas/repository is traced with
the abstract interpreter of sa/shapes.py; the rules compare the recorded file,
key and shape events between the writer and the reader of each family.
"""
import ast
import re

from ..program import Program, dotted, norm
from ..report import AnalysisError
from ..flow import guards_of, facts, always_exits
from ..calls import params_of, defaults_of, bind_call, depends_on, local_closure
from .. import shapes as S

REPO_DIR = 'cherab/openadas/repository/'
MODULES = ['atomic.py', 'pec.py', 'radiated_power.py', 'wavelength.py', 'beam/cx.py', 'beam/stopping.py',
           'beam/population.py', 'beam/emission.py', 'utility.py']
EXTRA = ['cherab/openadas/install.py', 'cherab/openadas/repository/create.py', 'cherab/openadas/openadas.py']

# family, module, add, update, get, multi-key file (read-modify-write required)
FAMILIES = [
    ('ionisation', 'atomic', 'add_ionisation_rate', 'update_ionisation_rates', 'get_ionisation_rate', True),
    ('recombination', 'atomic', 'add_recombination_rate', 'update_recombination_rates', 'get_recombination_rate', True),
    ('thermal_cx', 'atomic', 'add_thermal_cx_rate', 'update_thermal_cx_rates', 'get_thermal_cx_rate', True),
    ('line_power', 'radiated_power', 'add_line_power_rate', 'update_line_power_rates', 'get_line_radiated_power_rate', True),
    ('continuum_power', 'radiated_power', 'add_continuum_power_rate', 'update_continuum_power_rates', 'get_continuum_radiated_power_rate', True),
    ('cx_power', 'radiated_power', 'add_cx_power_rate', 'update_cx_power_rates', 'get_cx_radiated_power_rate', True),
    ('pec_excitation', 'pec', 'add_pec_excitation_rate', 'update_pec_rates', 'get_pec_excitation_rate', True),
    ('pec_recombination', 'pec', 'add_pec_recombination_rate', 'update_pec_rates', 'get_pec_recombination_rate', True),
    ('pec_thermal_cx', 'pec', 'add_pec_thermal_cx_rate', 'update_pec_thermal_cx_rates', 'get_pec_thermal_cx_rate', True),
    ('wavelength', 'wavelength', 'add_wavelength', 'update_wavelengths', 'get_wavelength', True),
    ('beam_cx', 'beam.cx', 'add_beam_cx_rate', 'update_beam_cx_rates', 'get_beam_cx_rates', True),
    ('beam_stopping', 'beam.stopping', 'add_beam_stopping_rate', 'update_beam_stopping_rates', 'get_beam_stopping_rate', False),
    ('beam_population', 'beam.population', 'add_beam_population_rate', 'update_beam_population_rates', 'get_beam_population_rate', False),
    ('beam_emission', 'beam.emission', 'add_beam_emission_rate', 'update_beam_emission_rates', 'get_beam_emission_rate', True),
]
ALIAS = {'species': 'element'}
PKG = 'cherab.openadas.repository.'


def _canon(text):
    for a, b in ALIAS.items():
        text = re.sub(r'\b%s\b' % a, b, text)
    return text


def _shape(text, syms):
    for s in sorted(syms, key=len, reverse=True):
        text = re.sub(r'\b%s\b' % re.escape(s), '_', text)
    return text


def _path_template(p):
    """Join(root, Fmt) -> (root_value, template, [arg values]) or None."""
    if isinstance(p, S.Join) and len(p.parts) >= 2:
        root = p.parts[0]
        rest = p.parts[1:]
        tmpl, args = '', []
        for part in rest:
            if isinstance(part, S.Fmt):
                t, a = part.resolved()
            elif isinstance(part, S.Const):
                t, a = str(part.value), []
            else:
                t, a = '{}', [part]
            tmpl += ('/' if tmpl else '') + t
            args += a
        return root, tmpl, args
    return None


class Fam:
    pass


def check(run):
    prog = Program()
    files = [REPO_DIR + m for m in MODULES] + EXTRA
    prog.load_many(files)
    for f in files:
        run.use_file(f)
    mods = {}
    for m in MODULES:
        key = PKG + m[:-3].replace('/', '.')
        mods[m[:-3].replace('/', '.')] = prog.modules[key]
    run.functions = sum(len(m.functions) for m in mods.values())
    run.explanation = (
        'Each add_*/update_*/get_* of the 14 getters / 13 families is abstractly traced (dict shapes, path templates, file '
        'events; nothing executed). Decides on all families: (R1) the file written through add_X and update_X is the file read '
        'by get_X (path template and argument roles) and families use distinct templates; (R2) writer and reader address the '
        'file content with the same key expression and the reader only reads record keys the writer stores; (R3) the nesting '
        'built by add_X is the nesting update_X unpacks; (R4) repository_path is forwarded along every call edge that can '
        'carry it and every path written or created is rooted at it; (R5) multi-key files are read-modify-write: what is '
        'dumped was loaded from the same path (or is empty only when the file is missing); (R6) getters turn missing file / '
        'key into RuntimeError; (R7) nothing can raise between truncating a file and dumping it; (R8) encode_transition '
        'lower-cases str() of both levels. Does not decide bit-exact float round trips through JSON, file-system '
        'interleavings, or collisions of exotic level strings.')
    run.assumptions = ['json.dump/load round-trip Python floats exactly (CPython repr round-trip)',
                       'no concurrent writers to one repository']

    # ---------------- completeness of the family table
    run.describe('C06-T', 'family table complete: every public add_/update_/get_ appears in exactly one row')
    table = set()
    for fam in FAMILIES:
        table.update([(fam[1], fam[2]), (fam[1], fam[3]), (fam[1], fam[4])])
    for mname, mi in mods.items():
        for fname in mi.functions:
            if re.match(r'(add|update|get)_', fname):
                run.subject('C06-T')
                if (mname, fname) not in table:
                    raise AnalysisError('repository function %s.%s is not in the frozen family table' % (mname, fname))
                run.ok('C06-T', '%s.%s' % (mname, fname), 'in table', sample=False)
    for mname, fname in table:
        if mname not in mods or fname not in mods[mname].functions:
            raise AnalysisError('anchored repository function vanished: %s.%s' % (mname, fname))

    def resolver(name, mod):
        base = name.split('.')[-1]
        if name in mod.functions:
            return mod.functions[name], mod
        tgt = mod.imports.get(name.split('.')[0])
        if tgt:
            for mi in mods.values():
                if tgt == mi.name + '.' + base and base in mi.functions:
                    return mi.functions[base], mi
        if name.startswith('repository.'):
            for mi in mods.values():
                if base in mi.functions and not base.startswith('_'):
                    return mi.functions[base], mi
        return None

    fams = []
    for name, mname, add, upd, get, rmw in FAMILIES:
        mi = mods[mname]
        fm = Fam()
        fm.name, fm.mod, fm.rmw = name, mi, rmw
        fm.fn = dict(add=mi.functions[add], update=mi.functions[upd], get=mi.functions[get])
        fm.ev = {}
        for role in ('add', 'get'):
            tr = S.Tracer(resolver)
            tr.trace(fm.fn[role], mi)
            fm.ev[role] = tr.events
        tr = S.Tracer(resolver)
        ps = params_of(fm.fn['update'])
        tr.trace(fm.fn['update'], mi, {ps[0]: S.Tree(ps[0]), 'repository_path': S.Sym('repository_path')})
        fm.ev['update'] = tr.events
        fams.append(fm)

    _r1(run, fams)
    _r2(run, fams)
    _r3(run, fams)
    _r4(run, prog, fams, mods)
    _r5(run, fams)
    _r6(run, fams)
    _r7(run, mods)
    _r8(run, mods)
    _r9(run, mods)
    _r10(run, mods)
    _r11(run, mods)
    _r12(run, prog)
    _r13(run, fams)
    _r14(run, mods)
    _r15(run, fams, mods)
    from ..cachekey import check_caches
    check_caches(run, list(mods.values()) + [prog.modules['cherab.openadas.install']], 'C06-K', prog=prog)


def _where(fm, role, node=None):
    fn = fm.fn[role]
    return fm.mod.relpath, getattr(node, 'lineno', fn.lineno)


def _key(fm, role, what):
    return '%s|%s|%s' % (fm.mod.name, fm.fn[role].name, what)


def _paths(events, mode):
    out = []
    for e in events:
        if e[0] == 'open' and e[2].startswith(mode):
            pt = _path_template(e[1])
            out.append((pt, e[1], e[3]))
    return out


# ------------------------------------------------------------------------------------------ R1
def _r1(run, fams):
    run.describe('C06-R1', 'path written via add_X == path written by update_X == path read by get_X; templates distinct across families')
    reads = {}
    for fm in fams:
        g = _paths(fm.ev['get'], 'r')
        run.subject('C06-R1')
        if len(g) != 1 or g[0][0] is None:
            run.undecided('C06-R1', fm.name + ' get', 'reader does not open exactly one templated path: %s' % [x[1].txt() for x in g])
            continue
        groot, gt, gargs = g[0][0]
        reads[fm.name] = gt
        gsig = [_canon(a.txt()) for a in gargs]
        for role in ('add', 'update'):
            w = _paths(fm.ev[role], 'w')
            if not w:
                run.fail('C06-R1', _key(fm, role, 'no-write'), *_where(fm, role),
                         what='%s never opens a repository file for writing' % fm.fn[role].name)
                continue
            for pt, raw, node in w:
                if pt is None:
                    run.undecided('C06-R1', '%s %s' % (fm.name, role), 'written path is not join(root, template): %s' % raw.txt())
                    continue
                wroot, wt, wargs = pt
                if role == 'add':
                    same = (wt == gt and [_canon(a.txt()) for a in wargs] == gsig)
                    if same:
                        run.ok('C06-R1', '%s add/get path' % fm.name, '%s %s' % (wt, gsig))
                    elif wt != gt:
                        run.fail('C06-R1', _key(fm, role, 'path-template'), fm.mod.relpath, fm.fn[role].lineno,
                                 "%s writes '%s' but %s reads '%s': the rate is stored under another family's file and can never be read back"
                                 % (fm.fn['add'].name, wt, fm.fn['get'].name, gt))
                    else:
                        run.fail('C06-R1', _key(fm, role, 'path-arguments'), fm.mod.relpath, fm.fn[role].lineno,
                                 "%s fills '%s' with %s but %s fills it with %s" % (fm.fn['add'].name, wt, [_canon(a.txt()) for a in wargs],
                                                                                   fm.fn['get'].name, gsig))
                else:
                    rx = '^' + re.escape(wt).replace(re.escape('{}'), '.+') + '$'
                    shapes_w = [_shape(a.txt(), a.syms) for a in wargs]
                    shapes_g = [_shape(a.txt(), a.syms) for a in gargs]
                    # constants resolved on the reader side consume writer-side slots
                    if re.match(rx, gt) and (shapes_w == shapes_g or len(shapes_w) > len(shapes_g)):
                        run.ok('C06-R1', '%s update/get path' % fm.name, '%s ~ %s' % (wt, gt))
                    else:
                        run.fail('C06-R1', _key(fm, role, 'path-template'), fm.mod.relpath, fm.fn[role].lineno,
                                 "%s writes '%s' %s but %s reads '%s' %s" % (fm.fn['update'].name, wt, shapes_w, fm.fn['get'].name, gt, shapes_g))
    seen = {}
    for name, t in reads.items():
        run.subject('C06-R1')
        if t in seen:
            run.fail('C06-R1', 'cherab.openadas.repository|families|shared-template|%s' % t, REPO_DIR, 0,
                     "families %s and %s read the same file template '%s'" % (seen[t], name, t))
        else:
            seen[t] = name
            run.ok('C06-R1', 'distinct template ' + name, t, sample=False)
    run.floor('C06-R1', 14 * 2)


# ------------------------------------------------------------------------------------------ R13
def _r13(run, fams):
    """Writer / reader agreement on the representation of the tables: JSON cannot hold arrays, so the writer stores each table with
    .tolist() and the reader turns the same record keys back into float64 arrays."""
    run.describe('C06-R13', 'every record key the writer stores with .tolist() is converted back with np.array(record[key], float64) by the getter, '
                            'and every key the getter converts is one the writer stored as a list (an array left in the record makes json.dump raise)')

    def const_key(sub):
        return sub.slice.value if isinstance(sub, ast.Subscript) and isinstance(sub.slice, ast.Constant) and isinstance(sub.slice.value, str) else None

    def is_tolist(v):
        return isinstance(v, ast.Call) and isinstance(v.func, ast.Attribute) and v.func.attr == 'tolist' and not v.args

    def closure(fn, mod):
        out, todo = [], [fn]
        while todo:
            f = todo.pop()
            if any(f is g for g in out):
                continue
            out.append(f)
            for c in ast.walk(f):
                if isinstance(c, ast.Call) and isinstance(c.func, ast.Name) and c.func.id in mod.functions \
                        and not c.func.id.startswith(('encode_', 'valid_', 'get_')):
                    todo.append(mod.functions[c.func.id])
        return out

    for fm in fams:
        W, R = set(), set()
        for role in ('add', 'update'):
          for body in closure(fm.fn[role], fm.mod):
            for n in ast.walk(body):
                if isinstance(n, ast.Dict):
                    for k, v in zip(n.keys, n.values):
                        if isinstance(k, ast.Constant) and isinstance(k.value, str) and is_tolist(v):
                            W.add(k.value)
                elif isinstance(n, ast.Assign) and len(n.targets) == 1 and const_key(n.targets[0]) and is_tolist(n.value):
                    W.add(const_key(n.targets[0]))
        get = fm.fn['get']
        other = []
        gbodies = closure(get, fm.mod)
        for n in [x for b in gbodies for x in ast.walk(b)]:
            if isinstance(n, ast.Call) and (dotted(n.func) or '').split('.')[-1] in ('array', 'asarray', 'ascontiguousarray'):
                par = [a for b in gbodies for a in ast.walk(b) if isinstance(a, ast.Assign) and a.value is n and len(a.targets) == 1]
                k = const_key(par[0].targets[0]) if par else None
                if k is not None and n.args and const_key(n.args[0]) == k:
                    R.add(k)
                else:
                    other.append(n)
        run.subject('C06-R13')
        # anything else that could convert the record (a helper given the record, a comprehension over its items) leaves the getter undecided
        helpers = []
        comps = [c for b in gbodies for c in ast.walk(b) if isinstance(c, (ast.DictComp, ast.ListComp, ast.GeneratorExp))
                 and any(isinstance(x, ast.Call) and (dotted(x.func) or '').split('.')[-1] in ('array', 'asarray', 'float', 'map') for x in ast.walk(c))]
        if not W:
            run.ok('C06-R13', fm.name, 'no table of this family is stored as a list (scalars only)') if not R else \
                run.undecided('C06-R13', fm.name, 'getter converts %s but no .tolist() store was recognised in the writer' % sorted(R))
            continue
        if other or helpers or comps:
            run.undecided('C06-R13', fm.name, 'getter converts the record in a form that is not key-by-key (%d other conversions, %d helper calls)' % (len(other) + len(comps), len(helpers)))
            continue
        if W == R:
            run.ok('C06-R13', fm.name, 'lists %s' % sorted(W))
            continue
        if W - R:
            run.fail('C06-R13', _key(fm, 'get', 'not-converted:' + ','.join(sorted(W - R))), *_where(fm, 'get'),
                     what="%s returns the record key(s) %s as the Python lists read from the file: the writer %s stored them with .tolist() and every other "
                          "table of the record comes back as a float64 array, so what is read back is not the table that was installed"
                          % (get.name, sorted(W - R), fm.fn['update'].name))
        if R - W:
            run.fail('C06-R13', _key(fm, 'update', 'not-listed:' + ','.join(sorted(R - W))), *_where(fm, 'update'),
                     what="%s does not store the record key(s) %s with .tolist() although %s reads them back as arrays: the value left in the record "
                          "is whatever the caller supplied -- the parsers supply numpy arrays, which json.dump rejects after the file has been opened for writing"
                          % (fm.fn['update'].name, sorted(R - W), get.name))
    run.floor('C06-R13', 10)



# ------------------------------------------------------------------------------------------ R14
def _r14(run, mods):
    """'Metastable level cannot be less than zero': the writers reject exactly the negative indices."""
    from ..cachekey import _guard_atoms
    run.describe('C06-R14', "metastable index guards of the writers reject exactly the negative indices ('cannot be less than zero': index 0 is stored)")
    want = None
    for mname, mi in sorted(mods.items()):
        for fname, fn in mi.functions.items():
            for st in ast.walk(fn):
                if not (isinstance(st, ast.If) and len(st.body) == 1 and isinstance(st.body[0], ast.Raise) and not st.orelse):
                    continue
                names = {n.id for n in ast.walk(st.test) if isinstance(n, ast.Name)}
                if len(names) != 1 or 'metastable' not in next(iter(names)) or any(isinstance(n, (ast.Call, ast.Attribute)) for n in ast.walk(st.test)):
                    continue
                x = next(iter(names))
                run.subject('C06-R14')
                try:
                    got = _guard_atoms(st.test, {x}, {x}, {x})[:2]
                    if want is None:
                        want = _guard_atoms(ast.parse('_x < 0', mode='eval').body, {'_x'}, {'_x'}, {'_x'})[:2]
                except Exception:
                    got = None
                if got is None:
                    run.undecided('C06-R14', '%s.%s' % (mname, fname), 'guard %s not a recognised comparison' % norm(st.test))
                elif got == want:
                    run.ok('C06-R14', '%s.%s' % (mname, fname), norm(st.test))
                else:
                    run.fail('C06-R14', '%s|%s|metastable-guard' % (mi.name, fname), mi.relpath, st.lineno,
                             "%s rejects metastable indices with '%s'; the documented domain is index >= 0 ('cannot be less than zero'), so the guard "
                             "must reject exactly the negative ones" % (fname, norm(st.test)))
    run.floor('C06-R14', 2)



# ------------------------------------------------------------------------------------------ R15
def _r15(run, fams, mods):
    """A writer creates the directory of the file it opens for writing: installing into a fresh repository (or a new element / ion
    sub-directory) must not fail, and must not depend on an earlier install having created the directory."""
    run.describe('C06-R15', "every writer that opens a repository file for writing creates its directory first (os.makedirs on every path to the open)")
    allfns = {}
    for mi in mods.values():
        for n, f in mi.functions.items():
            allfns.setdefault(n, []).append((f, mi))

    def closure(fn, mod):
        out, todo = [], [(fn, mod)]
        while todo:
            f, m = todo.pop()
            if any(f is g for g in out):
                continue
            out.append(f)
            for c in ast.walk(f):
                if isinstance(c, ast.Call) and isinstance(c.func, ast.Name) and not c.func.id.startswith('get_'):
                    if c.func.id in m.functions:
                        todo.append((m.functions[c.func.id], m))
                    elif len(allfns.get(c.func.id, [])) == 1:
                        todo.append(allfns[c.func.id][0])
        return out
    seen = set()
    for fm in fams:
        fn = fm.fn['update']
        if id(fn) in seen:
            continue
        seen.add(id(fn))
        bodies = closure(fn, fm.mod)
        opens = [c for b in bodies for c in ast.walk(b) if isinstance(c, ast.Call) and dotted(c.func) == 'open' and len(c.args) >= 2
                 and isinstance(c.args[1], ast.Constant) and isinstance(c.args[1].value, str) and 'w' in c.args[1].value]
        if not opens:
            continue
        run.subject('C06-R15')
        mk = [c for b in bodies for c in ast.walk(b) if isinstance(c, ast.Call) and (dotted(c.func) or '').split('.')[-1] in ('makedirs', 'mkdir')]
        unknown = [c for b in bodies for c in ast.walk(b) if isinstance(c, ast.Call) and isinstance(c.func, ast.Name) and c.func.id in fm.mod.imports
                   and c.func.id not in fm.mod.functions and not len(allfns.get(c.func.id, [])) == 1 and 'repository' in str(fm.mod.imports[c.func.id])
                   and c.func.id not in ('encode_transition', 'valid_charge')]
        if mk:
            # the directory created is the one of the path opened: makedirs(dirname(path)) / makedirs(directory) with directory = dirname(path)
            run.ok('C06-R15', fn.name, 'creates %s before open(..., "w")' % norm(mk[0].args[0])[:40] if mk[0].args else 'makedirs')
        elif unknown:
            run.undecided('C06-R15', fn.name, 'no makedirs found, but helper(s) %s of the package are not resolved' % sorted({c.func.id for c in unknown}))
        else:
            run.fail('C06-R15', '%s|%s|no-makedirs' % (fm.mod.name, fn.name), fm.mod.relpath, opens[0].lineno,
                     "%s opens '%s' for writing and nothing on the way creates its directory: in a repository that does not yet hold this "
                     "element / ion directory the install fails with FileNotFoundError" % (fn.name, norm(opens[0].args[0])[:40]))
    run.floor('C06-R15', 10)



# ------------------------------------------------------------------------------------------ R2
def _r2(run, fams):
    run.describe('C06-R2', "reader's key chain is a prefix of the writer's; reader's record keys subset of the writer's record keys")
    for fm in fams:
        run.subject('C06-R2')
        stores = [e for e in fm.ev['add'] if e[0] == 'store' and isinstance(e[1], S.Content)]
        loads = [e for e in fm.ev['get'] if e[0] == 'load-key']
        reads = [e for e in fm.ev['get'] if e[0] == 'record-read']
        leafs = [e for e in fm.ev['get'] if e[0] == 'leaf-subscript']
        if not fm.rmw:
            # whole-file family: the record itself is dumped; reader subscripts it with literal keys
            dumps = [e for e in fm.ev['add'] if e[0] == 'dump']
            wkeys = {e[2] for e in fm.ev['add'] if e[0] == 'leaf-subscript'}
            rkeys = {e[2][0].value for e in loads if len(e[2]) == 1 and isinstance(e[2][0], S.Const)}
            keyed = [e for e in loads if not (len(e[2]) == 1 and isinstance(e[2][0], S.Const))]
            if len(dumps) == 1 and isinstance(dumps[0][1], S.Sym) and not stores and not keyed and rkeys <= wkeys:
                run.ok('C06-R2', fm.name + ' whole-file record', 'dumps %s; reader keys %s within validated keys %s' % (dumps[0][1].txt(), sorted(rkeys), sorted(wkeys)))
            elif len(dumps) == 1 and not stores and not keyed:
                run.fail('C06-R2', _key(fm, 'get', 'record-keys'), *_where(fm, 'get'),
                         what='%s reads record keys %s that %s never validates/stores' % (fm.fn['get'].name, sorted(rkeys - wkeys), fm.fn['add'].name))
            else:
                run.fail('C06-R2', _key(fm, 'add', 'whole-file'), *_where(fm, 'add'),
                         what='%s is tabled as one-rate-per-file but uses keyed stores/loads' % fm.name)
            continue
        if not stores:
            run.fail('C06-R2', _key(fm, 'add', 'no-store'), *_where(fm, 'add'), what='%s stores nothing into the file content' % fm.fn['add'].name)
            continue
        if not loads:
            run.fail('C06-R2', _key(fm, 'get', 'no-load'), *_where(fm, 'get'), what='%s does not index the file content' % fm.fn['get'].name)
            continue
        # the final store of the data record (others, e.g. key normalisation of loaded content, are ignored)
        data_stores = [e for e in stores if e[3] is not None or any(s in ('rate', 'wavelength') for c in [e] for s in _syms_of_store(e))]
        wchains = [[_canon(c.txt()) for c in e[2]] for e in (data_stores or stores)]
        rchain = [_canon(c.txt()) for c in max(loads, key=lambda e: len(e[2]))[2]]
        if any(w[:len(rchain)] == rchain for w in wchains):
            run.ok('C06-R2', fm.name + ' key chain', 'writer %s reader %s' % (wchains, rchain))
        else:
            run.fail('C06-R2', _key(fm, 'get', 'key-chain'), fm.mod.relpath, loads[0][3].lineno,
                     'writer stores under key %s but %s looks up %s' % (wchains, fm.fn['get'].name, rchain))
        wkeys = set()
        for e in stores:
            if e[3]:
                wkeys |= set(e[3])
        rkeys = {e[3] for e in reads}
        if wkeys and rkeys:
            run.subject('C06-R2')
            if rkeys <= wkeys:
                run.ok('C06-R2', fm.name + ' record keys', 'reader %s within writer %s' % (sorted(rkeys), sorted(wkeys)))
            else:
                run.fail('C06-R2', _key(fm, 'get', 'record-keys'), *_where(fm, 'get'),
                         what='%s reads record keys %s that the writer never stores (writer stores %s)'
                              % (fm.fn['get'].name, sorted(rkeys - wkeys), sorted(wkeys)))
    run.floor('C06-R2', 14)


def _syms_of_store(e):
    return set()


# ------------------------------------------------------------------------------------------ R3
def _r3(run, fams):
    run.describe('C06-R3', 'nesting built by add_X is the nesting update_X unpacks (no dict level iterated on the opaque rate, no record key read from a dict level)')
    for fm in fams:
        run.subject('C06-R3')
        add = fm.fn['add']
        opaque = [p for p in params_of(add) if p in ('rate', 'wavelength', 'rates')]
        bad = []
        for e in fm.ev['add']:
            if e[0] == 'iterate-opaque' and any(re.search(r'\b%s\b' % p, e[1]) for p in opaque) and '[' not in e[1]:
                bad.append(("%s is iterated as a mapping level by %s: the nesting built by %s is one level short"
                            % (e[1], 'the update routine', add.name), e[2]))
            if e[0] == 'iterate-record':
                bad.append(('the data record %s is iterated as a mapping level: the nesting built by %s is one level short' % (e[1], add.name), e[2]))
            if e[0] == 'leaf-subscript' and e[1].startswith('{') and not any(re.fullmatch(p, e[1]) for p in opaque):
                bad.append(("record key '%s' is read from a mapping level %s: the nesting built by %s is too deep" % (e[2], e[1][:60], add.name), e[3]))
        if bad:
            for msg, node in bad[:1]:
                run.fail('C06-R3', _key(fm, 'add', 'nesting'), fm.mod.relpath, add.lineno, msg)
        else:
            calls = [e for e in fm.ev['add'] if e[0] == 'call']
            run.ok('C06-R3', fm.name + ' nesting', 'calls %s' % [c[1] for c in calls])
        # update standalone: leaf depth is unique
        depths = {e[2] for e in fm.ev['update'] if e[0] == 'tree-leaf'}
        if len(depths) > 1:
            run.fail('C06-R3', _key(fm, 'update', 'leaf-depth'), *_where(fm, 'update'),
                     what='%s reads record keys at different nesting depths %s' % (fm.fn['update'].name, sorted(depths)))
    run.floor('C06-R3', 14)


# ------------------------------------------------------------------------------------------ R4
def _r4(run, prog, fams, mods):
    run.describe('C06-R4', 'repository_path forwarded on every call edge that can carry it; every written/created path rooted at it')
    P = 'repository_path'
    allmods = list(mods.values()) + [prog.modules['cherab.openadas.install'], prog.modules['cherab.openadas.repository.create']]
    byname = {}
    for mi in allmods:
        for fname, fn in mi.functions.items():
            byname.setdefault(fname, []).append((fn, mi))
    for mi in allmods:
        for fname, fn in sorted(mi.functions.items()):
            if P not in params_of(fn):
                continue
            edges = local_closure(fn)
            for call in [n for n in ast.walk(fn) if isinstance(n, ast.Call)]:
                cn = dotted(call.func)
                if cn is None:
                    continue
                base = cn.split('.')[-1]
                cands = [c for c in byname.get(base, []) if P in params_of(c[0])]
                if not cands or base == fname:
                    continue
                g = cands[0][0]
                run.subject('C06-R4')
                b = bind_call(call, g)
                if b is None:
                    # *args call: keyword must still be present
                    kw = {k.arg: k.value for k in call.keywords}
                    b = kw
                if P not in b:
                    run.fail('C06-R4', '%s|%s|%s|dropped:%s' % (mi.name, fname, base, P), mi.relpath, call.lineno,
                             '%s receives %s but calls %s without it: the data goes to the default repository, not the one requested'
                             % (fname, P, base))
                elif not depends_on(fn, b[P], P, edges):
                    run.fail('C06-R4', '%s|%s|%s|misbound:%s' % (mi.name, fname, base, P), mi.relpath, call.lineno,
                             "%s passes '%s' as %s of %s" % (fname, norm(b[P]), P, base))
                else:
                    run.ok('C06-R4', '%s -> %s' % (fname, base), norm(b[P]))
    # OpenADAS provider: every repository.get_* call passes repository_path=self._data_path
    oa = prog.modules['cherab.openadas.openadas']
    for cnode in oa.classes.values():
        for fn in [n for n in cnode.body if isinstance(n, ast.FunctionDef)]:
            for call in [n for n in ast.walk(fn) if isinstance(n, ast.Call)]:
                cn = dotted(call.func) or ''
                if cn.startswith('repository.get_'):
                    run.subject('C06-R4')
                    kw = {k.arg: norm(k.value) for k in call.keywords}
                    g = byname.get(cn.split('.')[-1])
                    val = kw.get(P)
                    if val is None and g:
                        b = bind_call(call, g[0][0])
                        val = norm(b[P]) if b and P in b else None
                    if val == 'self._data_path':
                        run.ok('C06-R4', 'OpenADAS.%s -> %s' % (fn.name, cn), val, sample=False)
                    else:
                        run.fail('C06-R4', 'cherab.openadas.openadas|OpenADAS.%s|%s|%s' % (fn.name, cn, P), oa.relpath, call.lineno,
                                 'OpenADAS.%s reads %s with repository_path=%s instead of the provider data path' % (fn.name, cn, val))
    # taint: every written path / created directory is rooted at repository_path
    for fm in fams:
        for role in ('add', 'update'):
            for e in fm.ev[role]:
                if (e[0] == 'open' and e[2].startswith('w')) or e[0] == 'mkdir':
                    run.subject('C06-R4')
                    p = e[1]
                    root_ok = False
                    if isinstance(p, S.Join):
                        root_ok = P in p.parts[0].syms
                    elif isinstance(p, S.Ex) and p.text.startswith('dirname(join('):
                        root_ok = P in p.syms and p.text.startswith('dirname(join(%s' % P)
                    if root_ok:
                        run.ok('C06-R4', '%s %s %s' % (fm.name, role, e[0]), p.txt(), sample=False)
                    else:
                        run.fail('C06-R4', _key(fm, role, 'unrooted-' + e[0]), fm.mod.relpath, e[-1].lineno,
                                 '%s %s %s, which is not under the repository path passed in' % (fm.fn[role].name,
                                                                                               'writes' if e[0] == 'open' else 'creates', p.txt()))
    run.floor('C06-R4', 60)


# ------------------------------------------------------------------------------------------ R5
def _r5(run, fams):
    run.describe('C06-R5', 'multi-key files: the content dumped was loaded from the same path, empty only when the file is missing')
    for fm in fams:
        if not fm.rmw:
            continue
        for role in ('update',):
            dumps = [e for e in fm.ev[role] if e[0] == 'dump']
            run.subject('C06-R5')
            if not dumps:
                run.fail('C06-R5', _key(fm, role, 'no-dump'), *_where(fm, role), what='%s never dumps the file content' % fm.fn[role].name)
                continue
            for e in dumps:
                v, path = e[1], e[2]
                if isinstance(v, S.Content) and v.loaded and v.path is not None and v.path.txt() == path.txt():
                    run.ok('C06-R5', '%s %s read-modify-write' % (fm.name, role), v.txt())
                else:
                    run.fail('C06-R5', _key(fm, role, 'not-rmw'), fm.mod.relpath, e[3].lineno,
                             '%s dumps %s into %s: the previous content of the file is not carried over, other keys are lost'
                             % (fm.fn[role].name, v.txt()[:80], path.txt()))
    run.floor('C06-R5', 11)


# ------------------------------------------------------------------------------------------ R6
def _r6(run, fams):
    run.describe('C06-R6', 'getter: open/json.load/key lookup inside try; handlers cover FileNotFoundError (+KeyError when a key is looked up) and raise RuntimeError')
    done = set()
    for fm in fams:
        get = fm.fn['get']
        targets = [get]
        # follow delegation (get_pec_* -> _get_pec_rate)
        for c in ast.walk(get):
            if isinstance(c, ast.Call) and dotted(c.func) in fm.mod.functions and dotted(c.func).startswith('_get'):
                targets = [fm.mod.functions[dotted(c.func)]]
        for fn in targets:
            if (fm.mod.name, fn.name) in done:
                continue
            done.add((fm.mod.name, fn.name))
            run.subject('C06-R6')
            try:
                # private reading helpers of the module are part of the getter
                from ..inline import flatten, module_lookup
                fn = flatten(fn, module_lookup(fm.mod))
            except Exception:
                pass
            opens = [n for n in ast.walk(fn) if isinstance(n, ast.Call) and dotted(n.func) == 'open']
            tries = [n for n in ast.walk(fn) if isinstance(n, ast.Try)]
            K = '%s|%s|' % (fm.mod.name, fn.name)
            if not opens:
                run.undecided('C06-R6', fn.name, 'no open()')
                continue
            ok = True
            for o in opens:
                enclosing = [t for t in tries if any(x is o for b in t.body for x in ast.walk(b))]
                if not enclosing:
                    run.fail('C06-R6', K + 'open-outside-try', fm.mod.relpath, o.lineno,
                             '%s opens the file outside any try: a missing file raises FileNotFoundError, not RuntimeError' % fn.name)
                    ok = False
                    continue
                t = enclosing[0]
                caught = set()
                for h in t.handlers:
                    if h.type is None:
                        caught |= {'FileNotFoundError', 'KeyError'}
                    elif isinstance(h.type, ast.Tuple):
                        caught |= {dotted(x) for x in h.type.elts}
                    else:
                        caught.add(dotted(h.type))
                    raises = [r for r in ast.walk(h) if isinstance(r, ast.Raise)]
                    excs = {dotted(r.exc.func if isinstance(r.exc, ast.Call) else r.exc) for r in raises if r.exc is not None}
                    if excs != {'RuntimeError'}:
                        run.fail('C06-R6', K + 'handler-raises', fm.mod.relpath, h.lineno,
                                 '%s: handler raises %s instead of RuntimeError' % (fn.name, sorted(x or 'nothing' for x in excs) or 'nothing'))
                        ok = False
                if 'Exception' in caught or 'OSError' in caught:
                    caught |= {'FileNotFoundError'}
                if 'Exception' in caught or 'LookupError' in caught:
                    caught |= {'KeyError'}
                need = {'FileNotFoundError'}
                if fm.rmw:
                    need.add('KeyError')
                if not need <= caught:
                    run.fail('C06-R6', K + 'handler-types', fm.mod.relpath, t.lineno,
                             '%s catches %s; %s is not converted to RuntimeError for a key/file never written'
                             % (fn.name, sorted(caught), sorted(need - caught)))
                    ok = False
                if fm.rmw:
                    # the content that is indexed is the plain mapping json.load returns: an auto-vivifying RecursiveDict creates the
                    # missing key instead of raising
                    for s in ast.walk(t):
                        if isinstance(s, ast.Assign) and isinstance(s.value, ast.Call) and (dotted(s.value.func) or '').split('.')[0] == 'RecursiveDict' \
                                and any(isinstance(c_, ast.Call) and dotted(c_.func) == 'json.load' for c_ in ast.walk(s.value)) \
                                and any(isinstance(n_, ast.Subscript) and norm(n_.value).split('[')[0] == norm(s.targets[0]) and isinstance(n_.ctx, ast.Load)
                                        for n_ in ast.walk(fn)):
                            run.fail('C06-R6', K + 'autovivifying-content', fm.mod.relpath, s.lineno,
                                     '%s indexes %s: a RecursiveDict creates a missing key instead of raising KeyError, so a key that was never '
                                     'written yields an empty mapping, not RuntimeError' % (fn.name, norm(s.value)[:60]))
                            ok = False
                    # every key lookup on the loaded content happens inside the try body
                    loaded_names = {norm(s.targets[0]) for s in ast.walk(t) if isinstance(s, ast.Assign) and isinstance(s.value, ast.Call)
                                    and dotted(s.value.func) == 'json.load'}
                    for sub in [n for n in ast.walk(fn) if isinstance(n, ast.Subscript) and norm(n.value) in loaded_names]:
                        if not any(x is sub for b in t.body for x in ast.walk(b)):
                            run.fail('C06-R6', K + 'lookup-outside-try', fm.mod.relpath, sub.lineno,
                                     '%s looks up %s outside the try: a missing key raises KeyError' % (fn.name, norm(sub)))
                            ok = False
            if ok:
                run.ok('C06-R6', fn.name, 'missing file/key -> RuntimeError')
    run.floor('C06-R6', 13)


# ------------------------------------------------------------------------------------------ R7
def _r7(run, mods):
    run.describe('C06-R7', "a file opened for writing is only dumped into: nothing can raise between truncation and dump; validation raises precede the store of a key")
    for mname, mi in mods.items():
        for fname, fn in sorted(mi.functions.items()):
            for w in [n for n in ast.walk(fn) if isinstance(n, ast.With)]:
                for item in w.items:
                    c = item.context_expr
                    if isinstance(c, ast.Call) and dotted(c.func) == 'open' and len(c.args) > 1 and isinstance(c.args[1], ast.Constant) \
                            and str(c.args[1].value).startswith('w'):
                        run.subject('C06-R7')
                        # fh.write(text) with the text serialised before the file was opened is json.dump of a finished object, with the
                        # encoder run before the truncation
                        pre = {t.id for st_ in ast.walk(fn) if isinstance(st_, ast.Assign) and st_.lineno < w.lineno and isinstance(st_.value, ast.Call)
                               and dotted(st_.value.func) == 'json.dumps' for t in st_.targets if isinstance(t, ast.Name)}
                        fh_ = item.optional_vars.id if isinstance(item.optional_vars, ast.Name) else None
                        if fh_ and len(w.body) == 1 and isinstance(w.body[0], ast.Expr) and isinstance(w.body[0].value, ast.Call) \
                                and dotted(w.body[0].value.func) == fh_ + '.write' and len(w.body[0].value.args) == 1 \
                                and isinstance(w.body[0].value.args[0], ast.Name) and w.body[0].value.args[0].id in pre:
                            run.ok('C06-R7', '%s.%s write block' % (mname, fname), norm(w.body[0])[:60], sample=False)
                            continue
                        body_ok = all(isinstance(s, ast.Expr) and isinstance(s.value, ast.Call) and dotted(s.value.func) == 'json.dump' for s in w.body)
                        # what is dumped is a finished object: building or converting it inside the block can still raise after the truncation
                        plain = all(isinstance(s.value.args[0], ast.Name) or (isinstance(s.value.args[0], ast.Call) and isinstance(s.value.args[0].func, ast.Attribute)
                                    and s.value.args[0].func.attr == 'freeze' and isinstance(s.value.args[0].func.value, ast.Name) and not s.value.args[0].args)
                                    for s in w.body) if body_ok else False
                        strict = [k for s_ in w.body if body_ok for k in s_.value.keywords
                                  if (k.arg == 'allow_nan' and norm(k.value) == 'False') or k.arg in ('default', 'cls', 'check_circular')]
                        if body_ok and strict:
                            run.fail('C06-R7', '%s|%s|write-block-strict' % (mi.name, fname), mi.relpath, w.lineno,
                                     '%s dumps with %s=%s inside the "w" block: the encoder can raise after the file was truncated (a table with a '
                                     'non-finite value is rejected half-way), which destroys every key stored in that file before'
                                     % (fname, strict[0].arg, norm(strict[0].value)))
                        elif body_ok and not plain:
                            run.fail('C06-R7', '%s|%s|write-block-computes' % (mi.name, fname), mi.relpath, w.lineno,
                                     '%s builds or converts the dumped object inside the "w" block (%s): a conversion that raises there leaves a truncated file '
                                     'and destroys the keys stored before' % (fname, norm(w.body[0].value.args[0])[:60]))
                        elif body_ok:
                            run.ok('C06-R7', '%s.%s write block' % (mname, fname), norm(w.body[0])[:60], sample=False)
                        else:
                            run.fail('C06-R7', '%s|%s|write-block' % (mi.name, fname), mi.relpath, w.lineno,
                                     '%s does more than json.dump inside the "w" block: a failure there leaves a truncated file' % fname)
            # raise after store inside the same loop body
            for lp in [n for n in ast.walk(fn) if isinstance(n, ast.For)]:
                stores = [s for s in lp.body if isinstance(s, ast.Assign) and isinstance(s.targets[0], ast.Subscript)
                          and norm(s.targets[0].value).startswith('content')]
                for s in stores:
                    later = lp.body[lp.body.index(s) + 1:]
                    rs = [r for st in later for r in ast.walk(st) if isinstance(r, ast.Raise)]
                    run.subject('C06-R7')
                    if rs:
                        run.fail('C06-R7', '%s|%s|raise-after-store' % (mi.name, fname), mi.relpath, rs[0].lineno,
                                 '%s validates after storing the key: a rejected update can leave a half-updated key' % fname)
                    else:
                        run.ok('C06-R7', '%s.%s validation precedes store' % (mname, fname), norm(s.targets[0]), sample=False)
    run.floor('C06-R7', 12)


# ------------------------------------------------------------------------------------------ R9
def _definitely_assigned(stmts, name, stop):
    """Every path through stmts up to (not including) the statement `stop` assigns `name`. Returns True / False / None (stop not here)."""
    for st in stmts:
        if st is stop or any(x is stop for x in ast.walk(st)) and not _assigns_before_stop(st, name, stop):
            return False if not any(x is stop for x in ast.walk(st)) or st is stop else _nested(st, name, stop)
        if _assigns(st, name):
            return True
    return None


def _assigns(st, name):
    """statement st assigns `name` on every path through it"""
    if isinstance(st, ast.Assign):
        return any(isinstance(t, ast.Name) and t.id == name for t in st.targets)
    if isinstance(st, ast.If):
        return bool(st.orelse) and _block_assigns(st.body, name) and _block_assigns(st.orelse, name)
    if isinstance(st, ast.With):
        return _block_assigns(st.body, name)
    if isinstance(st, ast.Try):
        hs = all(_block_assigns(h.body, name) or always_exits(h.body, loop_exits=False) for h in st.handlers)
        return (_block_assigns(st.body, name) or _block_assigns(st.orelse, name)) and hs
    return False


def _block_assigns(stmts, name):
    return any(_assigns(s, name) for s in stmts)


def _assigns_before_stop(st, name, stop):
    return False


def _nested(st, name, stop):
    for f in ('body', 'orelse', 'finalbody'):
        b = getattr(st, f, None)
        if isinstance(b, list) and any(x is stop for s2 in b for x in ast.walk(s2)):
            r = _definitely_assigned(b, name, stop)
            return bool(r)
    return False


def _r9(run, mods):
    run.describe('C06-R9', 'the content written to each file of a multi-file update is rebuilt for that file on every path (nothing carried over from the previous file)')
    n = 0
    for mname, mi in mods.items():
        for fname, fn in sorted(mi.functions.items()):
            for c in [c for c in ast.walk(fn) if isinstance(c, ast.Call) and dotted(c.func) == 'json.dump' and c.args and isinstance(c.args[0], ast.Name)]:
                x = c.args[0].id
                loops = [l for l in ast.walk(fn) if isinstance(l, ast.For) and any(y is c for y in ast.walk(l))]
                if not loops:
                    continue
                # the loop whose iterations correspond to files: the innermost loop in which the path opened for writing is computed
                opens = [w.items[0].context_expr for w in ast.walk(fn) if isinstance(w, ast.With) and any(y is c for y in ast.walk(w))
                         and isinstance(w.items[0].context_expr, ast.Call) and dotted(w.items[0].context_expr.func) == 'open']
                pname = opens[0].args[0].id if opens and opens[0].args and isinstance(opens[0].args[0], ast.Name) else None
                per_file = [l for l in loops if pname and any(isinstance(a, ast.Assign) and any(isinstance(t, ast.Name) and t.id == pname for t in a.targets)
                                                              for a in ast.walk(l))]
                if not per_file:
                    continue        # one file, written repeatedly: accumulation across iterations is intended
                lp = min(per_file, key=lambda l: sum(1 for _ in ast.walk(l)))
                stop = [s2 for s2 in ast.walk(lp) if isinstance(s2, ast.stmt) and any(y is c for y in ast.walk(s2))]
                n += 1
                run.subject('C06-R9')
                # first use of x in the iteration: the earliest statement of the loop body that reads or mutates x
                first_use = None
                for s2 in lp.body:
                    uses = [y for y in ast.walk(s2) if isinstance(y, ast.Name) and y.id == x and isinstance(y.ctx, ast.Load)]
                    if uses and not _assigns(s2, x):
                        first_use = s2
                        break
                    if _assigns(s2, x):
                        break
                if first_use is None:
                    run.ok('C06-R9', '%s.%s %s' % (mname, fname, x), 'assigned on every path of the iteration before it is used', sample=False)
                else:
                    run.fail('C06-R9', '%s|%s|carried-over:%s' % (mi.name, fname, x), mi.relpath, first_use.lineno,
                             "%s uses '%s' in the per-file loop (line %d) before assigning it on every path of that iteration: when the assignment is skipped "
                             "(e.g. the file does not exist yet) the keys of the previous file are written into this one and become readable although "
                             "they were never written for it" % (fname, x, lp.lineno))
    run.subject('C06-R9')
    run.ok('C06-R9', 'per-file loops', '%d dumps inside loops examined' % n, sample=(n == 0))


# ------------------------------------------------------------------------------------------ R10
_IDENT_CALLS = ('np.array', 'np.asarray', 'numpy.array', 'float', 'int', 'str', 'list', 'tuple', 'np.float64', 'np.ascontiguousarray')


def _value_preserving(e, names, depth=0):
    """e hands a value on unchanged: conversions to array / list / float of a name, subscript or attribute chain"""
    if isinstance(e, (ast.Name, ast.Constant)):
        return True
    if isinstance(e, ast.Subscript):
        return isinstance(e.slice, (ast.Constant, ast.Name)) and _value_preserving(e.value, names, depth)
    if isinstance(e, ast.Attribute):
        return e.attr not in ('T', 'real', 'imag', 'flat') and _value_preserving(e.value, names, depth)
    if isinstance(e, ast.Call):
        d = dotted(e.func) or ''
        if d in _IDENT_CALLS and e.args:
            return _value_preserving(e.args[0], names, depth)
        if isinstance(e.func, ast.Attribute) and e.func.attr in ('tolist', 'copy', 'item', 'lower') and not e.args:
            return _value_preserving(e.func.value, names, depth)
        if isinstance(e.func, ast.Attribute) and e.func.attr == 'astype':
            return _value_preserving(e.func.value, names, depth)
    return False


def _r10(run, mods):
    run.describe('C06-R10', 'numeric tables are stored as given: every local that feeds a stored record field is only ever a type conversion of the input (round trip is bit for bit)')
    n = 0
    for mname, mi in mods.items():
        for fname, fn in sorted(mi.functions.items()):
            if not (fname.startswith(('update_', '_update_'))):
                continue
            recs = [d for d in ast.walk(fn) if isinstance(d, ast.Dict) and d.keys and all(isinstance(k, ast.Constant) and isinstance(k.value, str) for k in d.keys)
                    and any(isinstance(p_, ast.Assign) and p_.value is d and isinstance(p_.targets[0], ast.Subscript) for p_ in ast.walk(fn))]
            for d in recs:
                feeding = {x.id for v in d.values for x in ast.walk(v) if isinstance(x, ast.Name)}
                for nm in sorted(feeding):
                    defs = [st for st in ast.walk(fn) if isinstance(st, ast.Assign) and any(isinstance(t, ast.Name) and t.id == nm for t in st.targets)]
                    augs = [st for st in ast.walk(fn) if isinstance(st, ast.AugAssign) and isinstance(st.target, ast.Name) and st.target.id == nm]
                    if not defs and not augs:
                        continue
                    n += 1
                    run.subject('C06-R10')
                    bad = [st for st in defs if not _value_preserving(st.value, feeding)] + augs
                    if bad:
                        run.fail('C06-R10', '%s|%s|transformed:%s' % (mi.name, fname, nm), mi.relpath, bad[0].lineno,
                                 "%s changes '%s' (%s) before storing it: what is read back is not bit for bit what was written" % (fname, nm, norm(bad[0])[:60]))
                    else:
                        run.ok('C06-R10', '%s.%s %s' % (mname, fname, nm), '; '.join(norm(st.value)[:40] for st in defs), sample=False)
    run.floor('C06-R10', 10)


# ------------------------------------------------------------------------------------------ R12
def _r12(run, prog):
    """R12: every update reads the stored file into a RecursiveDict (from_dict) and dumps it back; the conversion must be a
    structure-preserving copy -- every key of every level kept under the same key with its value (nested dicts converted), nothing
    filtered -- or the keys that were not touched by the update do not 'keep their previous content'.  The same for freeze()."""
    run.describe('C06-R12', 'RecursiveDict.from_dict / freeze copy every key of every level (no entry filtered or re-keyed)')
    rel = 'cherab/core/utility/recursivedict.py'
    mi = prog.load(rel, required=False)
    if mi is None:
        raise AnalysisError('anchored source file vanished: %s' % rel)
    run.use_file(rel)
    ci = prog.classes.get(mi.name + '.RecursiveDict')
    if ci is None:
        raise AnalysisError('anchored class vanished: RecursiveDict')
    from ..inline import flatten, class_lookup
    for mname in ('from_dict', 'freeze'):
        fn0 = ci.methods.get(mname)
        run.subject('C06-R12')
        if fn0 is None:
            raise AnalysisError('anchored method vanished: RecursiveDict.%s' % mname)
        # the conversion may live in a private helper (from_dict -> _convert_dict_tree): judge the function that holds the loop
        cands = [fn0] + [m for n_, m in ci.methods.items() if n_.startswith('_') and not n_.startswith('__')
                         and any(isinstance(c, ast.Call) and isinstance(c.func, ast.Attribute) and c.func.attr == n_ for c in ast.walk(fn0))]
        fn = next((f for f in cands if any(isinstance(x, (ast.For, ast.DictComp)) for x in ast.walk(f))), None)
        K = '%s|RecursiveDict|%s|' % (mi.name, mname)
        if fn is None:
            run.undecided('C06-R12', 'RecursiveDict.' + mname, 'no loop over the entries found')
            continue
        loops = [x for x in ast.walk(fn) if isinstance(x, ast.For)]
        if len(loops) != 1 or not (isinstance(loops[0].iter, ast.Call) and isinstance(loops[0].iter.func, ast.Attribute) and loops[0].iter.func.attr == 'items'
                                   and isinstance(loops[0].target, ast.Tuple) and len(loops[0].target.elts) == 2
                                   and all(isinstance(e, ast.Name) for e in loops[0].target.elts)):
            run.undecided('C06-R12', 'RecursiveDict.' + mname, 'entry loop not of the form "for key, value in X.items()"')
            continue
        lp = loops[0]
        kv, vv = [e.id for e in lp.target.elts]
        src = norm(lp.iter.func.value)
        bad = None
        for x in ast.walk(lp):
            if isinstance(x, (ast.Continue, ast.Break)):
                bad = (x, 'skips entries (%s)' % type(x).__name__.lower())
            elif isinstance(x, ast.Delete) or (isinstance(x, ast.Call) and isinstance(x.func, ast.Attribute) and x.func.attr in ('pop', 'popitem', 'clear')):
                bad = (x, 'removes entries')
        # full copy first (d = dict(self)) and values replaced in place, or a new container filled key by key
        copies = [st for st in fn.body if isinstance(st, ast.Assign) and len(st.targets) == 1 and isinstance(st.value, ast.Call)
                  and (dotted(st.value.func) in ('dict', 'copy.copy') and len(st.value.args) == 1
                       or isinstance(st.value.func, ast.Attribute) and st.value.func.attr == 'copy' and not st.value.args)
                  and any(isinstance(w, ast.Assign) and isinstance(w.targets[0], ast.Subscript) and norm(w.targets[0].value) == norm(st.targets[0])
                          for w in ast.walk(lp))]
        stores = [st for st in ast.walk(lp) if isinstance(st, ast.Assign) and isinstance(st.targets[0], ast.Subscript)]
        if not bad and not copies:
            # a store in both arms of an if/else at the top of the loop body (converted value / value as it is) happens on every pass
            both_arms = [x for x in lp.body if isinstance(x, ast.If) and x.orelse
                         and len([st for st in x.body if st in stores]) == 1 and len([st for st in x.orelse if st in stores]) == 1
                         and len([st for st in stores if any(st is y for y in ast.walk(x))]) == 2]
            if len(both_arms) == 1 and len(stores) == 2 and all(norm(st.targets[0].slice) == kv for st in stores):
                stores_top_ok = True
            else:
                stores_top_ok = False
            top = [st for st in lp.body if st in stores]
            if stores_top_ok:
                top, stores = [stores[0]], [stores[0]]
            if len(stores) != 1 or len(top) != 1:
                cond = [st for st in stores if st not in lp.body]
                bad = ((cond or stores or [lp])[0], 'stores an entry only under a condition' if cond else 'does not store each entry exactly once')
            elif norm(top[0].targets[0].slice) != kv:
                bad = (top[0], 'stores the entry under %s, not under its own key' % norm(top[0].targets[0].slice))
        if not bad:
            for st in stores:
                if norm(st.targets[0].slice) != kv:
                    bad = (st, 'stores the entry under %s, not under its own key' % norm(st.targets[0].slice))
        if not bad:
            # the value is changed only by the recursive conversion, under a type test of the value
            for iff in [x for x in ast.walk(lp) if isinstance(x, ast.If)]:
                t = iff.test
                if not (isinstance(t, ast.Call) and dotted(t.func) == 'isinstance' and len(t.args) == 2 and norm(t.args[0]) == vv):
                    bad = (iff, 'treats entries differently depending on (%s), which is not a type test of the value' % norm(t)[:40])
        if bad:
            run.fail('C06-R12', K + 'filter', rel, bad[0].lineno,
                     'RecursiveDict.%s %s: the tree it returns is not a copy of the stored one, so an update that reads a file, adds its keys '
                     'and writes it back loses or moves keys it was not asked to touch' % (mname, bad[1]))
        else:
            run.ok('C06-R12', 'RecursiveDict.' + mname, 'every entry kept under its key; nested mappings converted')
    run.floor('C06-R12', 2)


# ------------------------------------------------------------------------------------------ R11
def _r11(run, mods):
    """A getter reads the file every time: a memoised getter (functools.lru_cache / cache, or a module-level dict of results) returns what an
    earlier read saw, so after add/update the last write no longer wins -- unless every writer of the module clears the memo."""
    run.describe('C06-R11', 'repository getters are not memoised across writes (no lru_cache / cache without cache_clear in every writer)')
    n = 0
    for mname, mi in mods.items():
        clears = {dotted(c.func) for fn in mi.functions.values() for c in ast.walk(fn) if isinstance(c, ast.Call) and (dotted(c.func) or '').endswith('.cache_clear')}
        for fname, fn in sorted(mi.functions.items()):
            if not fname.startswith(('get_', '_get')):
                continue
            n += 1
            run.subject('C06-R11')
            decos = [dotted(d.func if isinstance(d, ast.Call) else d) or '' for d in fn.decorator_list]
            memo = [d for d in decos if d.split('.')[-1] in ('lru_cache', 'cache', 'memoize', 'cached')]
            if memo and ('%s.cache_clear' % fname) not in clears:
                run.fail('C06-R11', '%s|%s|memoised' % (mi.name, fname), mi.relpath, fn.lineno,
                         '%s is wrapped in %s and no writer clears the cache: a read after a later add/update of the same key returns the value of the '
                         'first read, the last write no longer wins' % (fname, memo[0]))
            else:
                run.ok('C06-R11', '%s.%s' % (mname, fname), 'reads the file on every call', sample=False)
    run.floor('C06-R11', 12)


# ------------------------------------------------------------------------------------------ R8
def _r8(run, mods):
    run.describe('C06-R8', 'encode_transition: both levels through str(.).lower(), upper level first')
    mi = mods['utility']
    fn = mi.functions.get('encode_transition')
    if fn is None:
        raise AnalysisError('anchored function vanished: encode_transition')
    run.subject('C06-R8')
    from ..inline import flatten, module_lookup
    fn = flatten(fn, module_lookup(mi))
    tr = S.Tracer(lambda n, m: None)
    ret = tr.trace(fn, mi)
    p = params_of(fn)[0]
    ok = False
    if isinstance(ret, S.Fmt):
        t, args = ret.resolved()
        want = ['str(%s#0).lower()' % p, 'str(%s#1).lower()' % p]
        want2 = ['str(%s[0]).lower()' % p, 'str(%s[1]).lower()' % p]        # the same two elements, spelled by index
        if [a.txt() for a in args] in (want, want2) and t.count('{}') == 2:
            ok = True
    if ok:
        run.ok('C06-R8', 'encode_transition', ret.txt())
    else:
        run.fail('C06-R8', 'cherab.openadas.repository.utility|encode_transition|form', mi.relpath, fn.lineno,
                 'encode_transition returns %s: transition levels are not compared by their lower-cased string form, upper then lower' % ret.txt())
    # valid_charge: the updaters reject a charge above the atomic number (and nothing else): charge <= element.atomic_number
    vc = mi.functions.get('valid_charge')
    if vc is not None:
        run.subject('C06-R8')
        try:
            vc = flatten(vc, module_lookup(mi))
        except Exception:
            pass
        el, ch = [a.arg for a in vc.args.args[:2]]
        rets = [r for r in ast.walk(vc) if isinstance(r, ast.Return) and r.value is not None]
        txt = norm(rets[0].value).replace(' ', '') if len(rets) == 1 else None
        good = ('%s<=%s.atomic_number' % (ch, el), '%s.atomic_number>=%s' % (el, ch), 'not%s>%s.atomic_number' % (ch, el),
                '%s<%s.atomic_number+1' % (ch, el))
        if txt in good:
            run.ok('C06-R8', 'valid_charge', txt)
        elif txt is not None and isinstance(rets[0].value, ast.Compare) and 'atomic_number' in txt:
            run.fail('C06-R8', 'cherab.openadas.repository.utility|valid_charge|form', mi.relpath, vc.lineno,
                     'valid_charge returns %s; documented: charge <= atomic number (the bare nucleus is a valid state, anything above is not): '
                     'an update is rejected, or stored, for the wrong charge states' % norm(rets[0].value))
        else:
            run.undecided('C06-R8', 'valid_charge', 'form %s' % txt)


_A = REPO_DIR + 'atomic.py'
_P = REPO_DIR + 'pec.py'
_W = REPO_DIR + 'wavelength.py'
_RP = REPO_DIR + 'radiated_power.py'
_BE = REPO_DIR + 'beam/emission.py'
_BC = REPO_DIR + 'beam/cx.py'
_U = REPO_DIR + 'utility.py'
MUTANTS = [
    dict(name='strict-json-inside-the-write-block', file='cherab/openadas/repository/pec.py', find="json.dump(content, f, indent=2, sort_keys=True)", replace="json.dump(content, f, indent=2, sort_keys=True, allow_nan=False)", occurrence=0, expect='C06-R7'),
    dict(name='wavelength-getter-memoised', file=REPO_DIR + 'wavelength.py', find="def get_wavelength(", replace="@functools.lru_cache(maxsize=None)\ndef get_wavelength(", expect='C06-R11'),
    dict(name='stopping-record-converted-inside-write-block', file=REPO_DIR + 'beam/stopping.py', find="        json.dump(rate, f, indent=2, sort_keys=True)",
         replace="        json.dump({k: (v if isinstance(v, list) else float(v)) for k, v in rate.items()}, f, indent=2, sort_keys=True)", occurrence=0, of=1, expect='C06-R7'),
    dict(name='pec-content-created-once-for-all-files', file=REPO_DIR + 'pec.py', edits=[
        dict(file=REPO_DIR + 'pec.py', find="                try:\n                    with open(path, 'r') as f:\n                        content = RecursiveDict.from_dict(json.load(f))\n                except FileNotFoundError:\n                    content = RecursiveDict()\n",
             replace="                if os.path.isfile(path):\n                    with open(path, 'r') as f:\n                        content = RecursiveDict.from_dict(json.load(f))\n"),
        dict(file=REPO_DIR + 'pec.py', find="    repository_path = repository_path or DEFAULT_REPOSITORY_PATH\n\n    for cls, elements in rates.items():", replace="    repository_path = repository_path or DEFAULT_REPOSITORY_PATH\n    content = RecursiveDict()\n\n    for cls, elements in rates.items():")], expect='C06-R9'),
    dict(name='radiated-power-table-transposed-when-square', file=REPO_DIR + 'radiated_power.py',
         find="        if (ne.shape[0], te.shape[0]) != rate_table.shape:", replace="        if rate_table.shape == (te.shape[0], ne.shape[0]):\n            rate_table = rate_table.T\n        if (ne.shape[0], te.shape[0]) != rate_table.shape:", expect='C06-R10'),
    dict(name='writer-path-template', file=_A, find="        path = os.path.join(repository_path, 'recombination/{}.json'.format(species.symbol.lower()))\n\n        _update_and_write_adf11",
         replace="        path = os.path.join(repository_path, 'recombinations/{}.json'.format(species.symbol.lower()))\n\n        _update_and_write_adf11", expect='C06-R1'),
    dict(name='reader-drops-encode-transition', file=_W, find="return content[encode_transition(transition)]", replace="return content[str(transition)]", expect='C06-R2'),
    dict(name='add-calls-sibling-update', file=_A, find="    update_recombination_rates({\n        species: {\n            charge: rate", replace="    update_ionisation_rates({\n        species: {\n            charge: rate", expect='C06-R1'),
    dict(name='D7-reintroduced', file=_RP, find="    update_cx_power_rates({", replace="    update_line_power_rates({", expect='C06-R1'),
    dict(name='repository-path-omitted', file=_P, find="    update_pec_thermal_cx_rates(rates2update.freeze(), repository_path)", replace="    update_pec_thermal_cx_rates(rates2update.freeze())", expect='C06-R4'),
    dict(name='content-not-reloaded', file=_W, find="            try:\n                with open(path, 'r') as f:\n                    content = RecursiveDict.from_dict(json.load(f))\n            except FileNotFoundError:\n                content = RecursiveDict()",
         replace="            content = RecursiveDict()", expect='C06-R5'),
    dict(name='reader-except-narrowed', file=_BE, find="    except (FileNotFoundError, KeyError):", replace="    except FileNotFoundError:", expect='C06-R6'),
    dict(name='reader-raises-keyerror', file=_W, find="        raise RuntimeError('Requested wavelength", replace="        raise KeyError('Requested wavelength", expect='C06-R6'),
    dict(name='lower-removed-from-one-level', file=_U, find="    lower = str(lower).lower()", replace="    lower = str(lower)", expect='C06-R8'),
    dict(name='levels-swapped-in-key', file=_U, find="return '{} -> {}'.format(upper, lower)", replace="return '{} -> {}'.format(lower, upper)", expect='C06-R8'),
    dict(name='writer-key-without-str', file=_BC, find="                        content[transition_key][metastable] = {", replace="                        content[metastable][transition_key] = {", expect='C06-R2'),
    dict(name='writer-swaps-path-arguments', file=_A,
         find="                rate_path = 'thermal_cx/{0}/{1}/{2}.json'.format(donor_element.symbol.lower(),\n                                                                 donor_charge, receiver_element.symbol.lower())",
         replace="                rate_path = 'thermal_cx/{0}/{1}/{2}.json'.format(receiver_element.symbol.lower(),\n                                                                 donor_charge, donor_element.symbol.lower())", expect='C06-R1'),
    dict(name='add-nesting-too-shallow', file=_BE, find="            target_ion: {\n                target_charge: {\n                    transition: rate\n                }\n            }",
         replace="            target_ion: {\n                target_charge: rate\n            }", expect='C06-R'),
    dict(name='writer-record-key-renamed', file=_P, find="                        'rate': data['rate'].tolist()", replace="                        'rates': data['rate'].tolist()", expect='C06-R2'),
    dict(name='write-default-root', file=_W, find="            path = os.path.join(repository_path, 'wavelength/{}/{}.json'.format(element.symbol.lower(), charge))\n\n            # read in any existing",
         replace="            path = os.path.join(DEFAULT_REPOSITORY_PATH, 'wavelength/{}/{}.json'.format(element.symbol.lower(), charge))\n\n            # read in any existing", expect='C06-R'),
    dict(name='validate-after-truncate', file=_W, find="            with open(path, 'w') as f:\n                json.dump(content, f, indent=2, sort_keys=True)",
         replace="            with open(path, 'w') as f:\n                if not content:\n                    raise ValueError('nothing to write')\n                json.dump(content, f, indent=2, sort_keys=True)", expect='C06-R7'),
]
TWINS = [
    dict(name='rename-parameter', file=_W, find="def get_wavelength(element, charge, transition, repository_path=None):", replace="def get_wavelength(element, charge, transition, repository_path=None):\n    species = element"),
    dict(name='path-in-two-steps', file=_A,
         find="        path = os.path.join(repository_path, 'ionisation/{}.json'.format(species.symbol.lower()))\n\n        _update_and_write_adf11",
         replace="        rel = 'ionisation/{}.json'.format(species.symbol.lower())\n        path = os.path.join(repository_path, rel)\n\n        _update_and_write_adf11"),
]
