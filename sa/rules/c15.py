"""C15 -- observer groups broadcast settings faithfully (DESIGN section 5, C15).

Pure-ast rules over every class in cherab/tools/observers/group/*.py and
BolometerCamera.  Decides the copy-paste-slip class the property names: wrong
decorator target, wrong member attribute, missing/misplaced length check,
missing type check, members skipped or filtered.
"""
import ast

from ..program import Program, dotted, norm
from ..flow import guards_of, facts, stores
from ..report import AnalysisError

FILES = ['cherab/tools/observers/group/base.py', 'cherab/tools/observers/group/sightline.py',
         'cherab/tools/observers/group/fibreoptic.py', 'cherab/tools/observers/group/pixel.py',
         'cherab/tools/observers/group/targettedpixel.py', 'cherab/tools/observers/group/spectroscopic.py',
         'cherab/tools/observers/bolometry.py']

MEMBERS = {'_observers', '_foil_detectors'}
# properties that manage membership rather than broadcasting a member attribute
MEMBERSHIP = {'observers', 'sight_lines', 'foil_detectors'}
# sequence-only setters: no scalar branch by design (documented in the class docstring)
SEQUENCE_ONLY = {'names', 'pipelines'}
# read-only derived properties (no setter expected, not a member attribute list)
READONLY = {'slits'}
# documented renames: group property -> member attribute
ALIAS = {'names': 'name'}


def _member_iter(node):
    """If `node` iterates the members: returns ('all', None) for self._observers,
    ('zip', index_of_members, other_exprs) for zip(...), ('partial', text) for a slice/filter of it,
    else None."""
    d = dotted(node)
    if d and d.startswith('self.') and d.split('.')[-1] in MEMBERS and d.count('.') == 1:
        return ('all',)
    if isinstance(node, ast.Call) and dotted(node.func) == 'zip':
        for i, a in enumerate(node.args):
            mi = _member_iter(a)
            if mi and mi[0] == 'all':
                return ('zip', i, [x for j, x in enumerate(node.args) if j != i])
            if mi and mi[0] == 'partial':
                return ('partial', norm(node))
        return None
    for sub in ast.walk(node):
        ds = dotted(sub)
        if sub is not node and ds and ds.startswith('self.') and ds.split('.')[-1] in MEMBERS:
            return ('partial', norm(node))
    return None


# raysect: the radiance pipelines derive from the power pipelines
_PIPELINE_BASE = {'RadiancePipeline0D': 'PowerPipeline0D', 'SpectralRadiancePipeline0D': 'SpectralPowerPipeline0D'}


def _class_set(mi, e, depth=0):
    """the classes an isinstance() second argument names: a class, a tuple, a module-level tuple constant, a sum of those"""
    if isinstance(e, ast.Tuple):
        out = set()
        for x in e.elts:
            r = _class_set(mi, x, depth)
            if r is None:
                return None
            out |= r
        return out
    if isinstance(e, ast.BinOp) and isinstance(e.op, ast.Add):
        a, b = _class_set(mi, e.left, depth), _class_set(mi, e.right, depth)
        return None if a is None or b is None else a | b
    if isinstance(e, ast.Name):
        if e.id in mi.assigns and depth < 4:
            return _class_set(mi, mi.assigns[e.id], depth + 1)
        return {e.id}
    if isinstance(e, ast.Attribute):
        return {e.attr}
    return None


def _reduced(cs):
    return {c for c in cs if _PIPELINE_BASE.get(c) not in cs}


def _r5(run, prog):
    """R5: what a group broadcasts to its members is stored by the member: the member observer's setter reaches the same pipelines its
    getter reads the value back from (the same isinstance filter on both sides)."""
    run.describe('C15-R5', 'member observers: a property setter filters the pipelines with the same types as its getter (what is assigned is what is read back)')
    rel = 'cherab/tools/observers/spectroscopy/base.py'
    mi = prog.load(rel, required=False)
    if mi is None:
        raise AnalysisError('anchored source file vanished: %s' % rel)
    run.use_file(rel)
    for cname, cnode in sorted(mi.classes.items()):
        ci = prog.classes.get(mi.name + '.' + cname)
        if ci is None:
            continue
        for pname in sorted(set(ci.getters) & set(ci.setters)):
            g, s_ = ci.getters[pname], ci.setters[pname]

            def filt(fn):
                out = []
                for c in ast.walk(fn):
                    if isinstance(c, ast.Call) and dotted(c.func) == 'isinstance' and len(c.args) == 2 and isinstance(c.args[0], ast.Name) \
                            and c.args[0].id not in {a.arg for a in fn.args.args}:
                        out.append(_class_set(mi, c.args[1]))
                return out
            fg, fs = filt(g), filt(s_)
            if not fg and not fs:
                continue
            run.subject('C15-R5')
            if None in fg or None in fs or len(fg) != 1 or len(fs) != 1:
                run.undecided('C15-R5', '%s.%s' % (cname, pname), 'type filters not recognised')
                continue
            if _reduced(fg[0]) == _reduced(fs[0]):
                run.ok('C15-R5', '%s.%s' % (cname, pname), 'getter and setter both filter on %s' % sorted(_reduced(fg[0])))
            else:
                run.fail('C15-R5', '%s|%s|%s|filter' % (mi.name, cname, pname), rel, s_.lineno,
                         "%s.%s: the setter reaches the pipelines of type %s but the getter reads the value from %s: a value assigned (by a group "
                         "to its members) is not stored on the pipelines it is read back from"
                         % (cname, pname, sorted(_reduced(fs[0])), sorted(_reduced(fg[0]))))
        # a setter that walks the pipelines reaches all of them: leaving the loop at the first pipeline of another kind skips the rest
        for pname, s_ in sorted(ci.setters.items()):
            for lp in [x for x in ast.walk(s_) if isinstance(x, ast.For) and 'pipelines' in norm(x.iter)]:
                run.subject('C15-R5')
                jumps = [j for j in ast.walk(lp) if isinstance(j, (ast.Break, ast.Return))]
                if jumps:
                    run.fail('C15-R5', '%s|%s|%s|loop-left' % (mi.name, cname, pname), rel, jumps[0].lineno,
                             "%s.%s leaves the loop over the pipelines (%s) at the first pipeline it does not apply to: the pipelines after it never "
                             "receive the value, so what a group assigns to its members is not what is read back" % (cname, pname, type(jumps[0]).__name__.lower()))
                else:
                    run.ok('C15-R5', '%s.%s visits every pipeline' % (cname, pname), 'no break / return inside the loop', sample=False)
        # origin / direction: the observer's transform is translate(origin) * rotate_basis(direction, up) -- the translation applied last
        # (leftmost), with the coordinates that were assigned
        for pname, part in (('origin', 'value'), ('direction', None)):
            s_ = ci.setters.get(pname)
            if s_ is None:
                continue
            vname = s_.args.args[1].arg
            for st in [x for x in ast.walk(s_) if isinstance(x, ast.Assign) and norm(x.targets[0]) == 'self.transform']:
                run.subject('C15-R5')
                v = st.value
                ok_ = isinstance(v, ast.BinOp) and isinstance(v.op, ast.Mult) and isinstance(v.left, ast.Call) and dotted(v.left.func) == 'translate' \
                    and isinstance(v.right, ast.Call) and dotted(v.right.func) == 'rotate_basis'
                if ok_:
                    src = vname if pname == 'origin' else None
                    targs = [norm(a) for a in v.left.args]
                    if pname == 'origin' and targs != ['%s.x' % vname, '%s.y' % vname, '%s.z' % vname]:
                        run.fail('C15-R5', '%s|%s|origin|translation' % (mi.name, cname), rel, st.lineno,
                                 "%s.origin builds the transform with translate(%s): not the coordinates that were assigned" % (cname, ', '.join(targs)))
                    elif pname == 'direction' and norm(v.right.args[0]) != vname:
                        run.fail('C15-R5', '%s|%s|direction|basis' % (mi.name, cname), rel, st.lineno,
                                 "%s.direction builds the basis from %s, not from the assigned vector" % (cname, norm(v.right.args[0])))
                    else:
                        run.ok('C15-R5', '%s.%s transform' % (cname, pname), 'translate(origin) * rotate_basis(direction, up)', sample=False)
                elif isinstance(v, ast.BinOp) and isinstance(v.op, ast.Mult) and isinstance(v.right, ast.Call) and dotted(v.right.func) == 'translate':
                    run.fail('C15-R5', '%s|%s|%s|order' % (mi.name, cname, pname), rel, st.lineno,
                             "%s.%s multiplies the translation on the right (%s): it is applied in the observer's own rotated frame, so an observer "
                             "that already points somewhere does not end up at the assigned origin" % (cname, pname, norm(v)[:60]))
                else:
                    run.undecided('C15-R5', '%s.%s transform' % (cname, pname), 'form %s' % norm(v)[:50])
    run.floor('C15-R5', 2)


def check(run):
    prog = Program()
    _PROG[0] = prog
    prog.load_many(FILES)
    for f in FILES:
        run.use_file(f)
    run.explanation = (
        'Decides structural clauses of C15 on every observer-group class: (R1) each property setter is bound to '
        'its own name and has a getter; (R2) getter and both setter branches touch the member attribute named '
        'like the property, over all members in order; (R3) element-wise assignment is dominated by the '
        'length-equality test whose failure raises ValueError before any member is touched, the scalar branch '
        'assigns the given value to every member; (R4) membership mutators type-check before re-parenting, '
        '__getitem__ handles index/slice/unique name, observe() visits every member once. Does not decide '
        "raysect's Node.parent semantics or validation done by the member observers.")
    run.assumptions = ['raysect Node.parent assignment re-parents the node', 'member observers validate their own values']
    run.describe('C15-R1', 'setter function name == decorator target == an existing getter')
    run.describe('C15-R2', 'member attribute read by getter / written by setter == property name; all members, in order')
    run.describe('C15-R3', 'length check dominates element-wise stores; mismatch raises ValueError; scalar branch assigns to every member')
    run.describe('C15-R4', 'type check dominates re-parenting and membership update; __getitem__ / observe() shapes')

    classes = [c for c in prog.classes.values()
               if c.mod.relpath != 'cherab/tools/observers/bolometry.py' or c.name == 'BolometerCamera']
    groups = [c for c in classes if c.name == 'BolometerCamera' or c.name.endswith('Group')]
    if not any(c.name == 'Observer0DGroup' for c in groups):
        raise AnalysisError('anchored class vanished: Observer0DGroup')
    if not any(c.name == 'BolometerCamera' for c in groups):
        raise AnalysisError('anchored class vanished: BolometerCamera')
    nsetters = 0
    for ci in sorted(groups, key=lambda c: c.qual):
        run.functions += len(ci.methods) + len(ci.getters) + len(ci.setters)
        where = lambda n: (ci.mod.relpath, getattr(n, 'lineno', 0))
        # ---- R1: every function decorated @X.setter
        for st in ci.node.body:
            if isinstance(st, ast.FunctionDef) and getattr(st, 'is_setter', False):
                nsetters += 1
                run.subject('C15-R1')
                tgt = st.setter_target
                key = '%s|%s|%s' % (ci.mod.name, ci.name, st.name)
                if st.name != tgt:
                    run.fail('C15-R1', key + '|setter-name', *where(st),
                             what="setter decorated '@%s.setter' is defined under the name '%s': assigning to "
                                  "group.%s is not intercepted and group.%s gains a bogus setter" % (tgt, st.name, tgt, st.name))
                else:
                    gc, g = prog.find_getter(ci, tgt)
                    if g is None:
                        run.fail('C15-R1', key + '|no-getter', *where(st), what="setter '%s' has no getter" % tgt)
                    else:
                        run.ok('C15-R1', '%s.%s' % (ci.name, tgt), 'name == decorator target; getter in %s' % gc.name)
        # ---- R2/R3 per property defined in this class
        for pname, g in sorted(ci.getters.items()):
            s = None
            for st in ci.node.body:
                if isinstance(st, ast.FunctionDef) and getattr(st, 'is_setter', False) and st.setter_target == pname:
                    s = st
            if pname in READONLY:
                continue
            if pname in MEMBERSHIP:
                _membership(run, prog, ci, pname, g, s)
            else:
                _getter(run, ci, pname, g)
                if s is not None:
                    _setter(run, ci, pname, s)
        # ---- R4: methods
        for mname, m in sorted(ci.methods.items()):
            if mname.startswith('add_') and mname not in ('add_sight_line',):
                _adder(run, ci, m)
            if mname == 'add_sight_line':
                calls = [dotted(c.func) for c in ast.walk(m) if isinstance(c, ast.Call)]
                run.subject('C15-R4')
                if 'self.add_observer' in calls:
                    run.ok('C15-R4', '%s.add_sight_line' % ci.name, 'delegates to add_observer')
                else:
                    run.fail('C15-R4', '%s|%s|add_sight_line|delegate' % (ci.mod.name, ci.name), *where(m),
                             what='add_sight_line does not delegate to add_observer')
            if mname == 'observe':
                _observe(run, ci, m)
            if mname == '__getitem__':
                _getitem(run, ci, m)
    run.floor('C15-R1', 33)
    run.floor('C15-R2', 60, 'obligations')
    run.floor('C15-R3', 60, 'obligations')
    run.floor('C15-R4', 12, 'obligations')
    _r5(run, prog)
    from ..cachekey import check_caches
    check_caches(run, [m for k, m in prog.modules.items() if k.startswith('cherab.tools.observers')], 'C15-K', prog=prog)


def _key(ci, fn, what):
    return '%s|%s|%s|%s' % (ci.mod.name, ci.name, fn, what)


def _getter(run, ci, pname, g):
    run.subject('C15-R2')
    rets = [n for n in ast.walk(g) if isinstance(n, ast.Return) and n.value is not None]
    where = (ci.mod.relpath, g.lineno)
    if len(rets) != 1:
        run.undecided('C15-R2', '%s.%s getter' % (ci.name, pname), 'not a single return')
        return
    v = rets[0].value
    if isinstance(v, ast.ListComp) and len(v.generators) == 1:
        gen = v.generators[0]
        mi = _member_iter(gen.iter)
        if mi is None:
            run.undecided('C15-R2', '%s.%s getter' % (ci.name, pname), 'comprehension does not iterate members: ' + norm(gen.iter))
            return
        if mi[0] != 'all' or gen.ifs:
            run.fail('C15-R2', _key(ci, pname, 'getter-members'), *where,
                     what="getter of '%s' does not return every member's value in member order: iterates %s%s"
                          % (pname, norm(gen.iter), ' with a filter' if gen.ifs else ''))
            return
        if isinstance(v.elt, ast.Attribute) and isinstance(v.elt.value, ast.Name) and isinstance(gen.target, ast.Name) \
                and v.elt.value.id == gen.target.id:
            if v.elt.attr != ALIAS.get(pname, pname):
                run.fail('C15-R2', _key(ci, pname, 'getter-attr'), *where,
                         what="getter of '%s' reads member attribute '%s'" % (pname, v.elt.attr))
            else:
                run.ok('C15-R2', '%s.%s getter' % (ci.name, pname), norm(v))
        else:
            run.undecided('C15-R2', '%s.%s getter' % (ci.name, pname), 'element is not member.<attr>: ' + norm(v.elt))
    else:
        run.undecided('C15-R2', '%s.%s getter' % (ci.name, pname), 'not a list comprehension: ' + norm(v))


def _loops(fn):
    return [n for n in ast.walk(fn) if isinstance(n, ast.For)]


_PROG = [None]


def _prep(ci, fn):
    """helpers expanded, single-definition locals replaced: the rules below see one shape of the code"""
    from ..inline import prep, class_lookup, inline_trivial_properties
    if fn is None or _PROG[0] is None:
        return fn
    p = prep(inline_trivial_properties(fn, _PROG[0], ci), class_lookup(_PROG[0], ci))
    q = inline_trivial_properties(p, _PROG[0], ci)        # reads through a property inside an expanded helper
    return prep(q) if q is not p else p


def _setter(run, ci, pname, s):
    s = _prep(ci, s)
    param = s.args.args[1].arg if len(s.args.args) > 1 else None
    where = lambda n: (ci.mod.relpath, getattr(n, 'lineno', s.lineno))
    cname = '%s.%s setter' % (ci.name, pname)
    run.subject('C15-R3')
    elementwise, scalar = [], []
    for lp in _loops(s):
        mi = _member_iter(lp.iter)
        if mi is None:
            continue
        if mi[0] == 'partial':
            run.fail('C15-R3', _key(ci, pname, 'partial-loop'), *where(lp),
                     what="setter of '%s' iterates only part of the members: %s" % (pname, norm(lp.iter)))
            continue
        if mi[0] == 'zip':
            idx, others = mi[1], mi[2]
            if not (isinstance(lp.target, ast.Tuple) and len(lp.target.elts) == 1 + len(others)
                    and all(isinstance(e, ast.Name) for e in lp.target.elts)):
                run.undecided('C15-R3', cname, 'zip target shape')
                continue
            mvar = lp.target.elts[idx].id
            ovars = [e.id for j, e in enumerate(lp.target.elts) if j != idx]
            elementwise.append((lp, mvar, ovars, others))
        else:
            if isinstance(lp.target, ast.Name):
                scalar.append((lp, lp.target.id))
    # all member-attribute stores
    nstores = 0
    for lp, mvar, ovars, others in elementwise:
        sts = [(t, v, st) for t, v, st in stores(lp) if isinstance(t, ast.Attribute) and isinstance(t.value, ast.Name) and t.value.id == mvar]
        if not sts:
            run.fail('C15-R3', _key(ci, pname, 'elementwise-no-store'), *where(lp),
                     what="element-wise loop of '%s' assigns nothing to the members" % pname)
        for t, v, st in sts:
            nstores += 1
            if t.attr != ALIAS.get(pname, pname):
                run.fail('C15-R2', _key(ci, pname, 'elementwise-attr'), *where(st),
                         what="setter of '%s' assigns member attribute '%s' in the sequence branch" % (pname, t.attr))
            else:
                run.ok('C15-R2', cname + ' sequence store', norm(st))
            if not (isinstance(v, ast.Name) and v.id in ovars):
                run.fail('C15-R3', _key(ci, pname, 'elementwise-value'), *where(st),
                         what="sequence branch of '%s' assigns %s instead of the matching element" % (pname, norm(v)))
            else:
                run.ok('C15-R3', cname + ' element-wise value', norm(st))
        # zipped sequence must be the parameter
        if not (len(others) == 1 and isinstance(others[0], ast.Name) and others[0].id == param):
            run.fail('C15-R3', _key(ci, pname, 'zip-source'), *where(lp),
                     what="element-wise loop of '%s' does not zip members with the assigned value: %s" % (pname, norm(lp.iter)))
        # dominated by length equality
        f = facts(guards_of(s, lp) or [])
        leneq = any((l, op, r) in f for l, op, r in [('len(%s)' % param, '==', 'len(self._observers)')])
        if leneq:
            run.ok('C15-R3', cname + ' length check dominates', 'len(%s) == len(self._observers)' % param)
        else:
            run.fail('C15-R3', _key(ci, pname, 'length-check'), *where(lp),
                     what="element-wise assignment in setter of '%s' is not dominated by len(%s) == len(self._observers): "
                          "a sequence of another length is silently truncated" % (pname, param))
        # a ValueError is raised when lengths differ, before anything is stored
        ok = False
        for r in [n for n in ast.walk(s) if isinstance(n, ast.Raise)]:
            fr = facts(guards_of(s, r) or [])
            if ('len(%s)' % param, '!=', 'len(self._observers)') in fr:
                exc = r.exc.func if isinstance(r.exc, ast.Call) else r.exc
                if dotted(exc) == 'ValueError':
                    ok = True
                else:
                    run.fail('C15-R3', _key(ci, pname, 'mismatch-exception'), *where(r),
                             what="length mismatch in setter of '%s' raises %s, not ValueError" % (pname, norm(exc)))
                    ok = None
        if ok:
            run.ok('C15-R3', cname + ' mismatch raises', 'raise ValueError under len != len')
        elif ok is False:
            run.fail('C15-R3', _key(ci, pname, 'mismatch-raise'), *where(s),
                     what="setter of '%s' does not raise ValueError when the sequence length differs from the group size" % pname)
    for lp, mvar in scalar:
        sts = [(t, v, st) for t, v, st in stores(lp) if isinstance(t, ast.Attribute) and isinstance(t.value, ast.Name) and t.value.id == mvar]
        if not sts:
            run.fail('C15-R3', _key(ci, pname, 'scalar-no-store'), *where(lp),
                     what="scalar branch of '%s' assigns nothing to the members" % pname)
        for t, v, st in sts:
            nstores += 1
            if t.attr != ALIAS.get(pname, pname):
                run.fail('C15-R2', _key(ci, pname, 'scalar-attr'), *where(st),
                         what="setter of '%s' assigns member attribute '%s' in the scalar branch" % (pname, t.attr))
            else:
                run.ok('C15-R2', cname + ' scalar store', norm(st))
            if not (isinstance(v, ast.Name) and v.id == param):
                run.fail('C15-R3', _key(ci, pname, 'scalar-value'), *where(st),
                         what="scalar branch of '%s' assigns %s instead of the given value" % (pname, norm(v)))
            else:
                run.ok('C15-R3', cname + ' scalar value', norm(st))
        # the scalar loop must be exclusive with the sequence branch
        if elementwise:
            f = facts(guards_of(s, lp) or [])
            seqtests = [a for a in f if a[1] in ('true', 'false') and ('isinstance(%s' % param in a[0] or 'isinstance(v' in a[0])]
            if not any(a[1] == 'false' for a in seqtests):
                run.fail('C15-R3', _key(ci, pname, 'scalar-exclusive'), *where(lp),
                         what="scalar loop in setter of '%s' also runs for sequences" % pname)
            else:
                run.ok('C15-R3', cname + ' scalar branch exclusive', [a[0] for a in seqtests])
    if not elementwise:
        run.fail('C15-R3', _key(ci, pname, 'no-elementwise'), *where(s),
                 what="setter of '%s' has no element-wise branch zip(self._observers, %s)" % (pname, param))
    if not scalar and pname not in SEQUENCE_ONLY:
        run.fail('C15-R3', _key(ci, pname, 'no-scalar'), *where(s),
                 what="setter of '%s' has no scalar branch assigning the value to every member" % pname)
    # sequence test names list and tuple
    if elementwise and pname not in SEQUENCE_ONLY | {'pipelines'}:
        lp = elementwise[0][0]
        f = facts(guards_of(s, lp) or [])
        seq = [a[0] for a in f if a[1] == 'true' and 'isinstance(' in a[0]]
        if seq and all(('list' in t and 'tuple' in t) for t in seq):
            run.ok('C15-R3', cname + ' sequence test', seq)
        elif seq:
            run.fail('C15-R3', _key(ci, pname, 'sequence-test'), *where(lp),
                     what="sequence branch of '%s' is not taken for both list and tuple: %s" % (pname, seq))
        else:
            run.fail('C15-R3', _key(ci, pname, 'sequence-test'), *where(lp),
                     what="element-wise branch of '%s' is not selected by an isinstance(..., (list, tuple)) test" % pname)
    # stray member stores outside recognised loops
    for t, v, st in stores(s):
        if isinstance(t, ast.Attribute) and dotted(t) and dotted(t).startswith('self.'):
            run.fail('C15-R3', _key(ci, pname, 'self-store'), *where(st),
                     what="setter of '%s' stores to %s" % (pname, dotted(t)))


def _typecheck_facts(fn, node):
    return facts(guards_of(fn, node) or [])


def _membership(run, prog, ci, pname, g, s):
    s = _prep(ci, s)
    where = lambda n: (ci.mod.relpath, getattr(n, 'lineno', 0))
    run.subject('C15-R4')
    rets = [n for n in ast.walk(g) if isinstance(n, ast.Return) and n.value is not None]
    ok = False
    for r in rets:
        d = dotted(r.value) or (dotted(r.value.func) if isinstance(r.value, ast.Call) else None)
        if d and any(d == 'self.%s' % m or d == 'self.%s.copy' % m for m in MEMBERS):
            ok = True
    if ok:
        run.ok('C15-R4', '%s.%s getter' % (ci.name, pname), 'returns the member container')
    else:
        run.fail('C15-R4', _key(ci, pname, 'membership-getter'), *where(g),
                 what="getter of '%s' does not return the member container" % pname)
    if s is None:
        return
    param = s.args.args[1].arg
    # delegation
    for t, v, st in stores(s):
        if dotted(t) == 'self.observers' and isinstance(v, ast.Name) and v.id == param:
            run.ok('C15-R4', '%s.%s setter' % (ci.name, pname), 'delegates to observers setter')
            return
    # container store
    cstores = [(t, v, st) for t, v, st in stores(s) if dotted(t) in ('self._observers', 'self._foil_detectors')]
    if not cstores:
        run.fail('C15-R4', _key(ci, pname, 'membership-store'), *where(s), what="setter of '%s' never updates the member container" % pname)
        return
    for t, v, st in cstores:
        txt = norm(v)
        if txt not in ('tuple(%s)' % param, param, 'list(%s)' % param):
            run.fail('C15-R4', _key(ci, pname, 'membership-value'), *where(st),
                     what="setter of '%s' stores %s instead of the given members" % (pname, txt))
        f = _typecheck_facts(s, st)
        typed = [a for a in f if 'isinstance(' in a[0] and a[1] == 'true' and 'for ' in a[0] or
                 ('isinstance(' in a[0] and a[1] == 'true')]
        # each member type-checked: either all(isinstance(..) for ..) true, or a loop raising on not isinstance precedes
        loopcheck = False
        for lp in _loops(s):
            if norm(lp.iter) == param and lp.lineno < st.lineno:
                for r in [n for n in ast.walk(lp) if isinstance(n, ast.Raise)]:
                    fr = _typecheck_facts(s, r)
                    if any('isinstance(%s' % lp.target.id in a[0] and a[1] == 'false' for a in fr if isinstance(lp.target, ast.Name)):
                        loopcheck = True
        allcheck = any(a[0].startswith('all(') and 'isinstance(' in a[0] and a[1] == 'true' for a in f)
        if allcheck or loopcheck:
            run.ok('C15-R4', '%s.%s setter type check' % (ci.name, pname), 'member type test dominates the container update')
        else:
            run.fail('C15-R4', _key(ci, pname, 'membership-typecheck'), *where(st),
                     what="setter of '%s' updates the members without checking every member's type first" % pname)
        # re-parenting of every member
        parented = False
        for lp in _loops(s):
            if norm(lp.iter) == param and isinstance(lp.target, ast.Name):
                for t2, v2, st2 in stores(lp):
                    if dotted(t2) == '%s.parent' % lp.target.id and norm(v2) == 'self':
                        parented = True
        if parented:
            run.ok('C15-R4', '%s.%s setter parent' % (ci.name, pname), 'every given member gets parent = self')
        else:
            run.fail('C15-R4', _key(ci, pname, 'membership-parent'), *where(st),
                     what="setter of '%s' does not make the group the parent of every member" % pname)


def _adder(run, ci, m):
    m = _prep(ci, m)
    where = lambda n: (ci.mod.relpath, getattr(n, 'lineno', 0))
    if len(m.args.args) < 2:
        return
    param = m.args.args[1].arg
    run.subject('C15-R4')
    pst = [(t, v, st) for t, v, st in stores(m) if dotted(t) == '%s.parent' % param]
    if not pst or any(norm(v) != 'self' for t, v, st in pst):
        run.fail('C15-R4', _key(ci, m.name, 'parent'), *where(m), what='%s does not set the new member\'s parent to the group' % m.name)
        return
    upd = [(t, v, st) for t, v, st in stores(m) if dotted(t) in ('self._observers', 'self._foil_detectors')]
    appends = [c for c in ast.walk(m) if isinstance(c, ast.Call) and dotted(c.func) in ('self._foil_detectors.append', 'self._observers.append')]
    good = False
    sites = []
    for t, v, st in upd:
        sites.append(st)
        if norm(v) in ('self._observers + (%s,)' % param,):
            good = True
    for c in appends:
        sites.append(c)
        if len(c.args) == 1 and norm(c.args[0]) == param:
            good = True
    if not good:
        run.fail('C15-R4', _key(ci, m.name, 'append'), *where(m), what='%s does not append the new member to the members' % m.name)
        return
    # parenting and the membership update happen for every accepted member, not only under some other condition
    from ..flow import enclosing_conditions
    for site in sites + [st for t, v, st in pst]:
        stmt = site
        conds = []
        for e, pol in enclosing_conditions(m, stmt):
            if pol in ('in-loop',) and isinstance(e, ast.Tuple):
                continue        # one-trip loop of an expanded helper
            if isinstance(e, ast.expr) and norm(e).startswith(('isinstance(%s' % param, 'not isinstance(%s' % param)):
                continue
            conds.append(norm(e) if isinstance(e, ast.AST) else str(e))
        run.subject('C15-R4')
        if conds:
            run.fail('C15-R4', _key(ci, m.name, 'conditional:' + ('parent' if site in [st for t, v, st in pst] else 'append')), *where(site),
                     what='%s: "%s" only happens when %s: a member added otherwise is %s' % (
                         m.name, norm(site), ' and '.join(conds),
                         'listed but keeps its old scene-graph parent' if site in [st for t, v, st in pst] else 'parented but not listed'))
        else:
            run.ok('C15-R4', '%s.%s %s unconditional' % (ci.name, m.name, 'parenting' if site in [st for t, v, st in pst] else 'membership update'), norm(site), sample=False)
    for site in sites + [st for t, v, st in pst]:
        f = _typecheck_facts(m, site)
        if any(a[0].startswith('isinstance(%s' % param) and a[1] == 'true' for a in f):
            run.ok('C15-R4', '%s.%s' % (ci.name, m.name), 'isinstance(%s, ...) dominates %s' % (param, norm(site)))
        else:
            run.fail('C15-R4', _key(ci, m.name, 'typecheck'), *where(site),
                     what='%s: "%s" is not dominated by a type check of the new member' % (m.name, norm(site)))


def _observe(run, ci, m):
    where = (ci.mod.relpath, m.lineno)
    run.subject('C15-R4')
    loops = [lp for lp in _loops(m) if _member_iter(lp.iter)]
    calls = []
    for lp in loops:
        mi = _member_iter(lp.iter)
        if mi[0] != 'all':
            run.fail('C15-R4', _key(ci, 'observe', 'partial'), *where, what='observe() iterates only part of the members: %s' % norm(lp.iter))
            return
        if isinstance(lp.target, ast.Name):
            for st in lp.body:
                for c in ast.walk(st):
                    if isinstance(c, ast.Call) and dotted(c.func) == '%s.observe' % lp.target.id:
                        g = guards_of(m, c) or []
                        conditional = any(pol != 'in-loop' for e, pol in g)
                        calls.append((c, conditional))
    if len(calls) == 1 and not calls[0][1] and len(loops) == 1:
        run.ok('C15-R4', '%s.observe' % ci.name, 'one unconditional member.observe() in one loop over all members')
    elif not calls:
        run.fail('C15-R4', _key(ci, 'observe', 'none'), *where, what='observe() does not call observe() on the members')
    else:
        run.fail('C15-R4', _key(ci, 'observe', 'count'), *where,
                 what='observe() does not observe every member exactly once (%d call sites, conditional=%s)' % (len(calls), [c[1] for c in calls]))


def _getitem(run, ci, m):
    m = _prep(ci, m)
    from ..inline import append_helper_bodies, class_lookup
    m = append_helper_bodies(m, class_lookup(_PROG[0], ci))
    where = (ci.mod.relpath, m.lineno)
    param = m.args.args[1].arg
    run.subject('C15-R4')
    subs = [n for n in ast.walk(m) if isinstance(n, ast.Subscript) and _member_iter(n.value) == ('all',) and norm(n.slice) == param]
    if subs:
        run.ok('C15-R4', '%s.__getitem__ index' % ci.name, norm(subs[0]))
    else:
        run.fail('C15-R4', _key(ci, '__getitem__', 'index'), *where, what='__getitem__ does not index the members with the key')
    # name lookup: comparison member.name == key
    cmps = [n for n in ast.walk(m) if isinstance(n, ast.Compare) and len(n.ops) == 1 and isinstance(n.ops[0], ast.Eq)
            and {norm(n.left), norm(n.comparators[0])} & {param} and any(x.endswith('.name') for x in (norm(n.left), norm(n.comparators[0])))]
    if cmps:
        # the objects whose names are compared are the members themselves (not the scenegraph children, which keep replaced members)
        side = [x for x in (cmps[0].left, cmps[0].comparators[0]) if isinstance(x, ast.Attribute) and x.attr == 'name' and isinstance(x.value, ast.Name)]
        src = None
        if side:
            v = side[0].value.id
            for n in ast.walk(m):
                if isinstance(n, ast.comprehension) and isinstance(n.target, ast.Name) and n.target.id == v:
                    src = n.iter
                elif isinstance(n, ast.For) and isinstance(n.target, ast.Name) and n.target.id == v:
                    src = n.iter
        if src is not None and _member_iter(src) != ('all',) and norm(src).startswith('self.'):
            run.fail('C15-R4', _key(ci, '__getitem__', 'name-source'), *where,
                     what='__getitem__ looks names up in %s, not in the member list: objects that are no longer (or not) members are returned' % norm(src))
        elif src is None or _member_iter(src) != ('all',):
            run.undecided('C15-R4', '%s.__getitem__ name' % ci.name, 'source of the objects compared by name not recognised')
        else:
            run.ok('C15-R4', '%s.__getitem__ name' % ci.name, norm(cmps[0]))
    else:
        run.fail('C15-R4', _key(ci, '__getitem__', 'name'), *where, what='__getitem__ does not look members up by name')
        return
    # uniqueness (group classes that build a candidate list): a return of candidates[0] must be dominated by len == 1
    for r in [n for n in ast.walk(m) if isinstance(n, ast.Return) and isinstance(n.value, ast.Subscript)
              and isinstance(n.value.value, ast.Name) and norm(n.value.slice) == '0']:
        lst = n_id = r.value.value.id
        f = facts(guards_of(m, r) or [])
        ln = 'len(%s)' % lst
        upper = (ln, '<=', '1') in f or (ln, '<', '2') in f
        lower = (ln, '!=', '0') in f or (ln, '>', '0') in f or (ln, '>=', '1') in f
        if (ln, '==', '1') in f or (upper and lower):
            run.ok('C15-R4', '%s.__getitem__ unique name' % ci.name, 'return %s[0] under len == 1' % lst)
        else:
            run.fail('C15-R4', _key(ci, '__getitem__', 'unique'), *where,
                     what='__getitem__ returns the first of several members with the same name without a uniqueness test')


_B = 'cherab/tools/observers/group/base.py'
_S = 'cherab/tools/observers/group/spectroscopic.py'
_F = 'cherab/tools/observers/group/fibreoptic.py'
MUTANTS = [
    dict(name='name-lookup-over-children', file=_B, find="observers = [observer for observer in self._observers if observer.name == item]",
         replace="observers = [observer for observer in self.children if observer.name == item]", expect='C15-R4'),
    dict(name='camera-parent-only-with-new-slit', file='cherab/tools/observers/bolometry.py',
         find="        foil_detector.parent = self\n        self._foil_detectors.append(foil_detector)", replace="            foil_detector.parent = self\n        self._foil_detectors.append(foil_detector)", expect='C15-R4'),
    dict(name='setter-bound-to-other-name', file=_F, find="@radius.setter\n    def radius(self, value):", replace="@radius.setter\n    def acceptance_angle(self, value):", expect='C15-R1'),
    dict(name='getter-reads-other-attr', file=_B, find="return [observer.spectral_rays for observer in self._observers]", replace="return [observer.spectral_bins for observer in self._observers]", expect='C15-R2'),
    dict(name='scalar-branch-other-attr', file=_B, find="            for observer in self._observers:\n                observer.ray_max_depth = value", replace="            for observer in self._observers:\n                observer.ray_extinction_min_depth = value", expect='C15-R2'),
    dict(name='length-check-relaxed', file=_B, find="if len(value) == len(self._observers):\n                for observer, v in zip(self._observers, value):\n                    observer.pixel_samples = v",
         replace="if len(value) >= len(self._observers):\n                for observer, v in zip(self._observers, value):\n                    observer.pixel_samples = v", expect='C15-R3'),
    dict(name='length-check-after-loop', file=_B, find="        if len(pipelist) == len(self._observers):\n            for observer, pipelines in zip(self._observers, pipelist):\n                observer.pipelines = pipelines\n        else:",
         replace="        for observer, pipelines in zip(self._observers, pipelist):\n            observer.pipelines = pipelines\n        if len(pipelist) == len(self._observers):\n            pass\n        else:", expect='C15-R3'),
    dict(name='add-observer-no-typecheck', file=_B, find='        if not isinstance(observer, self._OBSERVER_TYPE):\n            raise ValueError("Can only add {} objects".format(self._OBSERVER_TYPE))\n', replace='', expect='C15-R4'),
    dict(name='observe-skips-last', file=_B, find="        for observer in self._observers:\n            observer.observe()", replace="        for observer in self._observers[:-1]:\n            observer.observe()", expect='C15-R4'),
    dict(name='getter-filtered', file=_B, find="return [observer.quiet for observer in self._observers]", replace="return [observer.quiet for observer in self._observers if observer.quiet]", expect='C15-R2'),
    dict(name='zip-order-swapped', file=_B, find="for observer, v in zip(self._observers, value):\n                    observer.quiet = v", replace="for observer, v in zip(value, self._observers):\n                    observer.quiet = v", expect='C15-R'),
    dict(name='scalar-branch-runs-for-sequences', file=_S, find="        else:\n            for sight_line in self._observers:\n                sight_line.origin = value", replace="        for sight_line in self._observers:\n            sight_line.origin = value", expect='C15-R3'),
    dict(name='mismatch-raises-typeerror', file=_B, find="""                raise ValueError("The length of 'quiet' ({}) \"""", replace="""                raise TypeError("The length of 'quiet' ({}) \"""", expect='C15-R3'),
    dict(name='unique-name-not-checked', file=_B, find="                if len(observers) == 1:\n                    return observers[0]", replace="                if len(observers) >= 1:\n                    return observers[0]", expect='C15-R4'),
    dict(name='observers-setter-no-parent', file=_B, find="        for observer in value:\n            observer.parent = self\n        self._observers = tuple(value)", replace="        self._observers = tuple(value)", expect='C15-R4'),
]
TWINS = [
    dict(name='message-text', file=_B, find="Can only add {} objects", replace="Only {} objects can be added"),
    dict(name='branches-reordered', file=_B,
         find="""        if isinstance(value, (list, tuple, ndarray)):
            if len(value) == len(self._observers):
                for observer, v in zip(self._observers, value):
                    observer.quiet = v
            else:
                raise ValueError("The length of 'quiet' ({}) "
                                 "mismatches the number of observers ({}).".format(len(value), len(self._observers)))
        else:
            for observer in self._observers:
                observer.quiet = value""",
         replace="""        if not isinstance(value, (list, tuple, ndarray)):
            for observer in self._observers:
                observer.quiet = value
        else:
            if len(value) != len(self._observers):
                raise ValueError("The length of 'quiet' mismatches the number of observers.")
            for observer, v in zip(self._observers, value):
                observer.quiet = v"""),
]
