"""C17 -- voxel area, centroid and volume (DESIGN section 5, C17)."""
import ast
from fractions import Fraction

from ..program import Program, dotted, norm
from ..report import AnalysisError
from ..flow import stores
from ..algebra import SymEval, C, L, Rat, run_block

FILE = 'cherab/tools/inversions/voxels.pyx'


class PolyEval(SymEval):
    """Vertex arrays subscripted by the loop index become the leaves x@I / x@J (this vertex / next vertex)."""

    def __init__(self, arrays, idx, nvar, closing):
        super().__init__()
        self.arrays = arrays
        self.idx = idx
        self.nvar = nvar
        self.closing = closing

    def subscript(self, n):
        base = dotted(n.value)
        if base in self.arrays and not isinstance(n.slice, (ast.Tuple, ast.Slice)):
            k = SymEval({}).ev(n.slice)
            if not self.closing:
                if k.eq(L(self.idx)):
                    return L(self.arrays[base] + '@I')
                if k.eq(L(self.idx) + C(1)):
                    return L(self.arrays[base] + '@J')
            else:
                if k.eq(L(self.nvar) - C(1)):
                    return L(self.arrays[base] + '@I')
                if k.eq(C(0)):
                    return L(self.arrays[base] + '@J')
            return L('%s@?%s' % (self.arrays[base], k.key()))
        return super().subscript(n)


def _terms(fn):
    """Per accumulator: (loop term AST, closing term AST, loop node)."""
    loops = [l for l in ast.walk(fn) if isinstance(l, ast.For)]
    if len(loops) != 1:
        return None
    lp = loops[0]
    acc_loop = {st.target.id: st for st in lp.body if isinstance(st, ast.AugAssign) and isinstance(st.op, ast.Add) and isinstance(st.target, ast.Name)}
    acc_close = {}
    for st in ast.walk(fn):
        if isinstance(st, ast.AugAssign) and isinstance(st.op, ast.Add) and isinstance(st.target, ast.Name) and st not in lp.body \
                and not any(x is st for x in ast.walk(lp)):
            acc_close[st.target.id] = st
    return lp, acc_loop, acc_close


def check(run):
    prog = Program()
    prog.load(FILE)
    prog.link()
    run.use_file(FILE)
    run.explanation = (
        'Decides structural necessary conditions of C17 on AxisymmetricVoxel and the voxel collection: (R1) in the area and centroid '
        'accumulations the loop term is the shoelace / Bourke term of the edge (v_i, v_i+1) and the closing term equals it under '
        'i -> n-1, i+1 -> 0 for every accumulator (the polygon is closed, every edge counted once, any starting vertex); the area '
        'accumulation is the same expression in both properties; cy is cx with x and y exchanged in the first factor; the centroid '
        'divides by 6 times the signed half-sum (orientation independent), the area is the absolute half-sum; volume = 2 pi '
        'centroid.x area; the collection total is the sum of voxel volumes; (R2) sampling: triangle areas accumulate cumulatively, '
        'the lookup uses total_area * uniform() and the chosen triangle\'s own three vertices, the estimate is the mean of the '
        'function at the sampled (r, 0, z). Does not decide exactness for concave polygons numerically, nor unbiasedness (the +1 '
        'lookup convention depends on find_index).')
    run.assumptions = ['raysect triangulate2d / point_triangle / find_index semantics', 'exact real arithmetic']
    ci = prog.classes.get('cherab.tools.inversions.voxels.AxisymmetricVoxel')
    if ci is None:
        raise AnalysisError('anchored class vanished: AxisymmetricVoxel')
    _r1(run, prog, ci)
    _r2(run, ci)
    from ..cachekey import check_caches
    check_caches(run, [ci.mod], 'C17-K')


def _r1(run, prog, ci):
    run.describe('C17-R1', 'shoelace / Bourke terms, closing terms, divisors, volume and total volume')
    K = ci.mod.name + '|AxisymmetricVoxel|'
    cross = L('x@I') * L('y@J') - L('x@J') * L('y@I')
    want = {'area': cross, 'cx': (L('x@I') + L('x@J')) * cross, 'cy': (L('y@I') + L('y@J')) * cross}
    area_terms = {}
    for pname, accs in (('cross_sectional_area', ['area']), ('cross_section_centroid', ['cx', 'cy', 'area'])):
        fn = ci.getters.get(pname)
        if fn is None:
            raise AnalysisError('anchored property vanished: AxisymmetricVoxel.%s' % pname)
        run.functions += 1
        t = _terms(fn)
        if t is None:
            run.undecided('C17-R1', pname, 'expected exactly one loop')
            continue
        lp, acc_loop, acc_close = t
        defs = {norm(tg): norm(v) for tg, v, st in stores(fn) if isinstance(st, ast.Assign)}
        arrays = {}
        for nm, v in defs.items():
            if v == 'self._vertices[:, 0]':
                arrays[nm] = 'x'
            if v == 'self._vertices[:, 1]':
                arrays[nm] = 'y'
        nvar = [k for k, v in defs.items() if v == 'self._vertices.shape[0]']
        run.subject('C17-R1')
        if sorted(arrays.values()) != ['x', 'y'] or not nvar:
            run.fail('C17-R1', K + pname + '|coordinates', ci.mod.relpath, fn.lineno,
                     '%s does not read r from column 0 and z from column 1 of the vertex array: %s' % (pname, defs))
            continue
        nvar = nvar[0]
        if norm(lp.iter) == 'range(%s - 1)' % nvar and isinstance(lp.target, ast.Name):
            run.ok('C17-R1', pname + ' loop', 'edges (v_i, v_i+1) for i in range(n - 1)')
        else:
            run.fail('C17-R1', K + pname + '|loop-range', ci.mod.relpath, lp.lineno, '%s loops over %s, expected range(n - 1)' % (pname, norm(lp.iter)))
            continue
        i = lp.target.id
        for a in accs:
            run.subject('C17-R1')
            if a not in acc_loop or a not in acc_close:
                run.fail('C17-R1', K + '%s|missing-term:%s' % (pname, a), ci.mod.relpath, fn.lineno,
                         "%s: accumulator '%s' lacks its %s term: the polygon is not closed" % (pname, a, 'loop' if a not in acc_loop else 'closing'))
                continue
            lt = PolyEval(arrays, i, nvar, False).ev(acc_loop[a].value)
            ct = PolyEval(arrays, i, nvar, True).ev(acc_close[a].value)
            if pname == 'cross_sectional_area' or a == 'area':
                area_terms[(pname, a)] = lt
            if not lt.eq(want[a]):
                run.fail('C17-R1', K + '%s|loop-term:%s' % (pname, a), ci.mod.relpath, acc_loop[a].lineno,
                         "%s: the edge term of '%s' is %s; documented: %s" % (pname, a, lt, want[a]))
            elif not ct.eq(lt):
                run.fail('C17-R1', K + '%s|closing-term:%s' % (pname, a), ci.mod.relpath, acc_close[a].lineno,
                         "%s: the closing term of '%s' is %s, which is not the edge term %s for the edge (v_n-1, v_0)" % (pname, a, ct, lt))
            else:
                run.ok('C17-R1', '%s %s terms' % (pname, a), '%s ; closing term = same under i -> n-1, i+1 -> 0' % lt)
        # initial values
        run.subject('C17-R1')
        inits = {a: defs.get(a) for a in accs}
        if all(v == '0' for v in inits.values()):
            run.ok('C17-R1', pname + ' accumulators start at 0', inits, sample=False)
        else:
            run.fail('C17-R1', K + pname + '|initial', ci.mod.relpath, fn.lineno, '%s: accumulators start at %s' % (pname, inits))
    # returned values
    fn = ci.getters['cross_sectional_area']
    ret = [r for r in ast.walk(fn) if isinstance(r, ast.Return)]
    run.subject('C17-R1')
    if ret and norm(ret[-1].value).replace(' ', '') in ('abs(area)/2', '0.5*abs(area)', 'abs(area)*0.5', 'fabs(area)/2'):
        run.ok('C17-R1', 'area', 'abs(sum) / 2')
    else:
        run.fail('C17-R1', K + 'cross_sectional_area|result', ci.mod.relpath, fn.lineno,
                 'cross_sectional_area returns %s; documented: |shoelace sum| / 2 (orientation independent)' % (norm(ret[-1].value) if ret else None))
    fn = ci.getters['cross_section_centroid']
    divs = [(norm(st.target), norm(st.value).replace(' ', '')) for st in ast.walk(fn) if isinstance(st, ast.AugAssign) and isinstance(st.op, ast.Div)]
    ret = [r for r in ast.walk(fn) if isinstance(r, ast.Return)]
    run.subject('C17-R1')
    if divs == [('area', '2'), ('cx', '6*area'), ('cy', '6*area')] and ret and norm(ret[-1].value).replace(' ', '') == 'new_point2d(cx,cy)':
        run.ok('C17-R1', 'centroid divisors', 'cx, cy / (6 * signed area); returns (cx, cy)')
    else:
        run.fail('C17-R1', K + 'cross_section_centroid|divisors', ci.mod.relpath, fn.lineno,
                 'centroid divides %s and returns %s; documented: area/2 (signed), cx / (6 area), cy / (6 area), point (cx, cy)' % (divs, norm(ret[-1].value) if ret else None))
    fn = ci.getters.get('volume')
    run.subject('C17-R1')
    rets = [norm(r.value).replace(' ', '') for r in ast.walk(fn) if isinstance(r, ast.Return)] if fn else []
    if rets and rets[0] in ('2*PI*self.cross_section_centroid.x*self.cross_sectional_area', '2*M_PI*self.cross_section_centroid.x*self.cross_sectional_area'):
        run.ok('C17-R1', 'volume', '2 pi * centroid.x * area')
    else:
        run.fail('C17-R1', K + 'volume|form', ci.mod.relpath, (fn or ci.node).lineno, 'volume returns %s; documented: 2 pi * centroid radius * area' % rets)
    # total volume of a collection
    owners = [c for c in prog.classes.values() if 'total_volume' in c.getters]
    run.subject('C17-R1')
    ok = False
    for c in owners:
        g = c.getters['total_volume']
        lp = [l for l in ast.walk(g) if isinstance(l, ast.For)]
        if len(lp) == 1 and norm(lp[0].iter) == 'self._voxels' and any(isinstance(s, ast.AugAssign) and isinstance(s.op, ast.Add)
                                                                        and norm(s.value) == norm(lp[0].target) + '.volume' for s in lp[0].body):
            ok = True
    if ok:
        run.ok('C17-R1', 'total_volume', 'sum of voxel.volume over all voxels')
    else:
        run.fail('C17-R1', ci.mod.name + '|VoxelCollection|total_volume|sum', ci.mod.relpath, 0, 'total_volume is not the sum of voxel.volume over every voxel')
    run.floor('C17-R1', 10)


def _r2(run, ci):
    run.describe('C17-R2', 'sampling wiring: cumulative triangle areas, lookup with total_area * uniform(), the chosen triangle\'s vertices, mean of samples')
    K = ci.mod.name + '|AxisymmetricVoxel|emissivity_from_function|'
    fn = ci.methods.get('emissivity_from_function')
    if fn is None:
        raise AnalysisError('anchored method vanished: AxisymmetricVoxel.emissivity_from_function')
    loops = [l for l in fn.body if isinstance(l, ast.For)]
    if len(loops) != 2:
        run.undecided('C17-R2', 'emissivity_from_function', 'expected two loops')
        return
    l1, l2 = loops
    j = norm(l1.target)
    e = SymEval()
    body = [st for st in l1.body if isinstance(st, ast.Assign)]
    run_block(e, body)
    run.subject('C17-R2')
    ta = e.env.get('triangle_area')
    ok = False
    if ta is not None:
        # 0.5 * abs(det)
        st = [s for s in body if norm(s.targets[0]) == 'triangle_area'][0]
        v = st.value
        txt = norm(v)
        inner = None
        for c in ast.walk(v):
            if isinstance(c, ast.Call) and dotted(c.func) in ('abs', 'fabs'):
                inner = c.args[0]
        if inner is not None:
            det = e.ev(inner)
            def P(k, col):
                return L('self._vertices[self._triangles[%s,%d],%d]' % (j, k, col))
            x1, y1, x2, y2, x3, y3 = P(0, 0), P(0, 1), P(1, 0), P(1, 1), P(2, 0), P(2, 1)
            want = x1 * y2 + x2 * y3 + x3 * y1 - x2 * y1 - x3 * y2 - x1 * y3
            half = txt.replace(' ', '').startswith('0.5*') or txt.replace(' ', '').endswith('/2')
            ok = (det.eq(want) or det.eq(C(0) - want)) and half
    if ok:
        run.ok('C17-R2', 'triangle area', '1/2 |x1 y2 + x2 y3 + x3 y1 - x2 y1 - x3 y2 - x1 y3| of the triangle\'s own vertices')
    else:
        run.fail('C17-R2', K + 'triangle-area', ci.mod.relpath, l1.lineno, 'triangle area is %s' % (ta.key()[:200] if ta is not None else None))
    run.subject('C17-R2')
    cum = [norm(s) for s in ast.walk(l1) if isinstance(s, ast.Assign) and norm(s.targets[0]).startswith('cumulative_areas[')]
    want_c = ['cumulative_areas[%s] = triangle_area' % j, 'cumulative_areas[%s] = cumulative_areas[%s - 1] + triangle_area' % (j, j)]
    first_if = [s for s in l1.body if isinstance(s, ast.If)]
    if cum == want_c and first_if and norm(first_if[0].test) == '%s == 0' % j and norm(l1.iter) == 'range(num_triangles)':
        run.ok('C17-R2', 'cumulative areas', 'c[0] = a_0 ; c[j] = c[j-1] + a_j for every triangle')
    else:
        run.fail('C17-R2', K + 'cumulative', ci.mod.relpath, l1.lineno, 'cumulative triangle areas are built as %s' % cum)
    run.subject('C17-R2')
    defs = {}
    for tg, v, st in stores(fn):
        defs.setdefault(norm(tg), []).append(norm(v))
    look = defs.get('tri_index', [])
    if 'find_index(cumulative_areas, total_area * uniform()) + 1' in look and '0' in look and defs.get('total_area') == ['self.cross_sectional_area']:
        run.ok('C17-R2', 'triangle lookup', 'find_index(cumulative_areas, total_area * uniform()) + 1 ; single triangle -> 0')
    else:
        run.fail('C17-R2', K + 'lookup', ci.mod.relpath, l2.lineno, 'triangle chosen by %s with total_area = %s' % (look, defs.get('total_area')))
    run.subject('C17-R2')
    pts = {k: v[-1] for k, v in defs.items() if k.endswith('_p')}
    idx = {k: v[-1] for k, v in defs.items() if k.endswith('_i')}
    okp = True
    for k in (1, 2, 3):
        vi, vp = 'v%d_i' % k, 'v%d_p' % k
        if idx.get(vi) != 'self._triangles[tri_index, %d]' % (k - 1) or pts.get(vp) != 'new_point3d(self._vertices[%s, 0], 0.0, self._vertices[%s, 1])' % (vi, vi):
            okp = False
    sp = defs.get('sample_point', [None])[-1]
    if okp and sp == 'point_triangle(v1_p, v2_p, v3_p)':
        run.ok('C17-R2', 'sample inside the chosen triangle', 'point_triangle of the three vertices (r, 0, z) of triangle tri_index')
    else:
        run.fail('C17-R2', K + 'sample-vertices', ci.mod.relpath, l2.lineno, 'sample point built from %s / %s / %s' % (idx, pts, sp))
    run.subject('C17-R2')
    acc = [s for s in l2.body if isinstance(s, ast.AugAssign) and norm(s.target) == 'emissivity']
    div = [s for s in fn.body if isinstance(s, ast.AugAssign) and isinstance(s.op, ast.Div) and norm(s.target) == 'emissivity']
    ret = [r for r in ast.walk(fn) if isinstance(r, ast.Return)]
    if acc and norm(acc[0].value) == 'emiss_function.evaluate(sample_point.x, 0, sample_point.z)' and div and norm(div[0].value) == fn.args.args[2].arg \
            and norm(l2.iter) == 'range(%s)' % fn.args.args[2].arg and ret and norm(ret[-1].value) == 'emissivity':
        run.ok('C17-R2', 'mean of samples', 'sum f(r, 0, z) / grid_samples')
    else:
        run.fail('C17-R2', K + 'mean', ci.mod.relpath, l2.lineno, 'the estimate is not the mean of the function at the sampled points over grid_samples samples')
    run.floor('C17-R2', 5)


MUTANTS = [
    dict(name='closing-term-index-slip', file=FILE, find="            area += x[num_vertices - 1] * y[0] - x[0] * y[num_vertices - 1]\n        return abs(area) / 2", replace="            area += x[num_vertices - 1] * y[0] - x[0] * y[num_vertices - 2]\n        return abs(area) / 2", expect='C17-R1'),
    dict(name='centroid-divisor', file=FILE, find="        cx /= (6 * area)", replace="        cx /= (3 * area)", expect='C17-R1'),
    dict(name='abs-dropped-from-area', file=FILE, find="        return abs(area) / 2", replace="        return area / 2", expect='C17-R1'),
    dict(name='cy-uses-x-sums', file=FILE, find="                cy += (y[i] + y[i + 1]) * (x[i] * y[i + 1] - x[i + 1] * y[i])", replace="                cy += (x[i] + x[i + 1]) * (x[i] * y[i + 1] - x[i + 1] * y[i])", expect='C17-R1'),
    dict(name='closing-term-dropped', file=FILE, find="            cx += ((x[num_vertices - 1] + x[0])\n                   * (x[num_vertices - 1] * y[0] - x[0] * y[num_vertices - 1]))\n", replace="", expect='C17-R1'),
    dict(name='volume-without-2pi', file=FILE, find="return 2 * PI * self.cross_section_centroid.x * self.cross_sectional_area", replace="return PI * self.cross_section_centroid.x * self.cross_sectional_area", expect='C17-R1'),
    dict(name='centroid-uses-absolute-area', file=FILE, find="        area /= 2\n", replace="        area = abs(area) / 2\n", expect='C17-R1'),
    dict(name='cumulative-not-cumulative', file=FILE, find="cumulative_areas[triangle_j] = (cumulative_areas[triangle_j - 1] + triangle_area)", replace="cumulative_areas[triangle_j] = triangle_area", expect='C17-R2'),
    dict(name='sample-vertex-reused', file=FILE, find="            v3_i = self._triangles[tri_index, 2]\n            v3_p", replace="            v3_i = self._triangles[tri_index, 1]\n            v3_p", expect='C17-R2'),
    dict(name='mean-not-divided', file=FILE, find="        emissivity /= grid_samples\n", replace="", expect='C17-R2'),
    dict(name='loop-skips-edge', file=FILE, find="            for i in range(num_vertices - 1):\n                area += x[i] * y[i + 1] - x[i + 1] * y[i]\n            area += x[num_vertices - 1] * y[0] - x[0] * y[num_vertices - 1]\n        return", replace="            for i in range(num_vertices - 2):\n                area += x[i] * y[i + 1] - x[i + 1] * y[i]\n            area += x[num_vertices - 1] * y[0] - x[0] * y[num_vertices - 1]\n        return", expect='C17-R1'),
]
TWINS = [
    dict(name='term-reordered', file=FILE, find="        return abs(area) / 2", replace="        return 0.5 * abs(area)"),
]
