"""C17 -- voxel area, centroid and volume (DESIGN section 5, C17)."""
import ast
from fractions import Fraction

from ..program import Program, dotted, norm
from ..report import AnalysisError
from ..flow import stores
from ..algebra import SymEval, C, L, Rat, run_block

FILE = 'cherab/tools/inversions/voxels.pyx'


class PolyEval(SymEval):
    """Vertex arrays subscripted by the loop index become the leaves x@I / x@J (this vertex / next vertex)."""

    def __init__(self, arrays, idx, nvar, closing):
        super().__init__()
        self.arrays = arrays
        self.idx = idx
        self.nvar = nvar
        self.closing = closing

    def subscript(self, n):
        base = dotted(n.value)
        if base in self.arrays and not isinstance(n.slice, (ast.Tuple, ast.Slice)):
            k = SymEval({}).ev(n.slice)
            if not self.closing:
                if k.eq(L(self.idx)):
                    return L(self.arrays[base] + '@I')
                if k.eq(L(self.idx) + C(1)):
                    return L(self.arrays[base] + '@J')
            else:
                if k.eq(L(self.nvar) - C(1)):
                    return L(self.arrays[base] + '@I')
                if k.eq(C(0)):
                    return L(self.arrays[base] + '@J')
            return L('%s@?%s' % (self.arrays[base], k.key()))
        return super().subscript(n)


def _terms(fn):
    """Per accumulator: (loop term AST, closing term AST, loop node)."""
    loops = [l for l in ast.walk(fn) if isinstance(l, ast.For)]
    if len(loops) != 1:
        return None
    lp = loops[0]
    acc_loop = {st.target.id: st for st in lp.body if isinstance(st, ast.AugAssign) and isinstance(st.op, ast.Add) and isinstance(st.target, ast.Name)}
    acc_close = {}
    for st in ast.walk(fn):
        if isinstance(st, ast.AugAssign) and isinstance(st.op, ast.Add) and isinstance(st.target, ast.Name) and st not in lp.body \
                and not any(x is st for x in ast.walk(lp)):
            acc_close[st.target.id] = st
    return lp, acc_loop, acc_close


_PROG = [None]


def check(run):
    prog = Program()
    prog.load(FILE)
    prog.link()
    _PROG[0] = prog
    run.use_file(FILE)
    run.explanation = (
        'Decides structural necessary conditions of C17 on AxisymmetricVoxel and the voxel collection: (R1) in the area and centroid '
        'accumulations the loop term is the shoelace / Bourke term of the edge (v_i, v_i+1) and the closing term equals it under '
        'i -> n-1, i+1 -> 0 for every accumulator (the polygon is closed, every edge counted once, any starting vertex); the area '
        'accumulation is the same expression in both properties; cy is cx with x and y exchanged in the first factor; the centroid '
        'divides by 6 times the signed half-sum (orientation independent), the area is the absolute half-sum; volume = 2 pi '
        'centroid.x area; the collection total is the sum of voxel volumes; (R2) sampling: triangle areas accumulate cumulatively, '
        'the lookup uses total_area * uniform() and the chosen triangle\'s own three vertices, the estimate is the mean of the '
        'function at the sampled (r, 0, z). Does not decide exactness for concave polygons numerically, nor unbiasedness (the +1 '
        'lookup convention depends on find_index).')
    run.assumptions = ['raysect triangulate2d / point_triangle / find_index semantics', 'exact real arithmetic']
    ci = prog.classes.get('cherab.tools.inversions.voxels.AxisymmetricVoxel')
    if ci is None:
        raise AnalysisError('anchored class vanished: AxisymmetricVoxel')
    _r1(run, prog, ci)
    _r2(run, ci)
    _r3(run, prog, ci)
    from ..cachekey import check_caches
    check_caches(run, [ci.mod], 'C17-K', prog=prog)


def _poly_eval(N):
    """Evaluator for a polygon with N symbolic vertices: self._vertices.shape[0] = N, self._vertices[:, c][k] = x_k / y_k."""
    from ..program import const_fold

    class PE(SymEval):
        def attribute(self, n):
            d = dotted(n)
            if d in ('self.cross_sectional_area',):
                return L('AREA')
            if d == 'self.cross_section_centroid.x':
                return L('CX')
            if d == 'self.cross_section_centroid.y':
                return L('CY')
            return super().attribute(n)

        def subscript(self, n):
            if norm(n.value) == 'self._vertices.shape' and norm(n.slice) == '0':
                return C(N)
            # array views
            if norm(n.value) == 'self._vertices' and isinstance(n.slice, ast.Tuple) and len(n.slice.elts) == 2:
                r, c = n.slice.elts
                cc = const_fold(c)
                if isinstance(r, ast.Slice) and r.lower is None and r.upper is None and cc in (0, 1):
                    return L('ARR:%s' % 'xy'[cc])
                rv = self.ev(r)
                if rv.is_const() and cc in (0, 1):
                    k = rv.const_value()
                    if k.denominator == 1:
                        return L('%s%d' % ('xy'[cc], int(k) % N))
            base = self.ev(n.value) if isinstance(n.value, ast.Name) else None
            if base is not None and base.key() in ('ARR:x', 'ARR:y') and not isinstance(n.slice, (ast.Tuple, ast.Slice)):
                k = self.ev(n.slice)
                if k.is_const() and k.const_value().denominator == 1:
                    kk = int(k.const_value())
                    if -N <= kk < N:
                        return L('%s%d' % (base.key()[-1], kk % N))
                    return L('OUT_OF_RANGE(%s[%d])' % (base.key()[-1], kk))
            return super().subscript(n)

        def ev(self, n):
            if isinstance(n, ast.BinOp) and isinstance(n.op, (ast.Mod, ast.FloorDiv)):
                a_, b_ = self.ev(n.left), self.ev(n.right)
                if a_.is_const() and b_.is_const() and b_.const_value() != 0:
                    x_, y_ = a_.const_value(), b_.const_value()
                    if x_.denominator == 1 and y_.denominator == 1:
                        return C(int(x_) % int(y_)) if isinstance(n.op, ast.Mod) else C(int(x_) // int(y_))
            return super().ev(n)

        def call(self, n):
            d = dotted(n.func)
            if d in ('abs', 'fabs', 'np.abs') and len(n.args) == 1:
                v = self.ev(n.args[0])
                return L('ABS(%s)' % v.key())
            if d == 'len' and len(n.args) == 1 and self.ev(n.args[0]).key() in ('ARR:x', 'ARR:y'):
                return C(N)
            if d == 'new_point2d' and len(n.args) == 2:
                a_, b_ = self.ev(n.args[0]), self.ev(n.args[1])
                name = 'POINT#%d' % len(POINTS)
                POINTS[name] = (a_, b_)
                return L(name)
            return super().call(n)
    PE.points = POINTS = {}
    return PE


def _shoelace(N):
    s = C(0)
    cx = C(0)
    cy = C(0)
    for i in range(N):
        j = (i + 1) % N
        cr = L('x%d' % i) * L('y%d' % j) - L('x%d' % j) * L('y%d' % i)
        s = s + cr
        cx = cx + (L('x%d' % i) + L('x%d' % j)) * cr
        cy = cy + (L('y%d' % i) + L('y%d' % j)) * cr
    return s, cx, cy


def _run_paths(fn, N, lookup=None):
    from ..pathinterp import PathInterp
    from ..inline import flatten
    g = flatten(fn, lookup) if lookup is not None else fn
    ev = _poly_eval(N)
    return PathInterp(g, (), {}, evaluator=ev, max_paths=32).run(), ev.points


def _r1(run, prog, ci):
    from ..inline import class_lookup
    run.describe('C17-R1', 'area, centroid, volume and total volume decided on the values the code computes for polygons of 3, 4 and 5 symbolic vertices')
    K = ci.mod.name + '|AxisymmetricVoxel|'
    _cl = class_lookup(prog, ci)
    from ..inline import module_lookup as _ml
    _mlk = _ml(ci.mod, public=True, prog=prog)

    def look(c):
        # private methods first, then module-level functions (also those imported from a sibling module of the package)
        r = _cl(c)
        if r is not None:
            return r
        if isinstance(c.func, ast.Name) and c.func.id not in ('abs', 'fabs', 'sqrt', 'len', 'range', 'max', 'min', 'float', 'int', 'new_point2d', 'Point2D'):
            try:
                return _mlk(c)
            except Exception:
                return None
        return None

    def _opaque(v):
        import re as _re
        return [l for l in (v.leaves() if hasattr(v, 'leaves') else []) if _re.match(r'^[A-Za-z_][\w.]*\(', l) and not l.startswith(('ABS(', 'SQRT(', 'sqrt('))]
    for pname in ('cross_sectional_area', 'cross_section_centroid'):
        fn = ci.getters.get(pname)
        if fn is None:
            raise AnalysisError('anchored property vanished: AxisymmetricVoxel.%s' % pname)
        run.functions += 1
        for N in (3, 4, 5):
            run.subject('C17-R1')
            try:
                paths, points = _run_paths(fn, N, look)
            except Exception as e:
                run.undecided('C17-R1', '%s N=%d' % (pname, N), 'cannot interpret: %s' % e)
                continue
            S, CXs, CYs = _shoelace(N)
            bad = None
            for p in paths:
                v = p.returned
                if v is None:
                    bad = ('returns nothing', p)
                    break
                if pname == 'cross_sectional_area':
                    want = [L('ABS(%s)' % S.key()) / C(2), L('ABS(%s)' % (C(0) - S).key()) / C(2), L('ABS(%s)' % (S / C(2)).key()), L('ABS(%s)' % ((C(0) - S) / C(2)).key())]
                    if not any(v.eq(w) for w in want):
                        bad = (v, p)
                        break
                else:
                    A = S / C(2)
                    wx, wy = CXs / (C(6) * A), CYs / (C(6) * A)
                    comp = points.get(v.key())
                    if comp is None or not (comp[0].eq(wx) and comp[1].eq(wy)):
                        bad = (('point(%s, %s)' % (comp[0].key()[:100], comp[1].key()[:100])) if comp else v, p)
                        break
            if bad and not isinstance(bad[0], str) and _opaque(bad[0]):
                run.undecided('C17-R1', '%s N=%d' % (pname, N), 'computed by %s, which was not resolved' % _opaque(bad[0])[0][:40])
            elif bad:
                got = bad[0] if isinstance(bad[0], str) else bad[0].key()[:220]
                run.fail('C17-R1', K + '%s|value' % pname, ci.mod.relpath, fn.lineno,
                         '%s of a polygon with %d vertices is %s on the path %s; documented: %s' % (
                             pname, N, got, dict(bad[1].decisions),
                             '|sum_i (x_i y_(i+1) - x_(i+1) y_i)| / 2 over all edges including the closing one' if pname == 'cross_sectional_area'
                             else 'sum_i (x_i + x_(i+1)) cross_i / (6 A) with the signed area A (Bourke), same for y'))
            else:
                run.ok('C17-R1', '%s N=%d' % (pname, N), 'equals the shoelace / Bourke value for %d symbolic vertices on %d path(s)' % (N, len(paths)), sample=(N == 3))
    # volume = 2 pi * centroid radius * area on every path (zero-area polygons excepted)
    fn = ci.getters.get('volume')
    if fn is None:
        raise AnalysisError('anchored property vanished: AxisymmetricVoxel.volume')
    run.subject('C17-R1')
    try:
        paths, _pts = _run_paths(fn, 4, look)
        bad = None
        for p in paths:
            v = p.returned
            wants = [C(2) * L(pi) * L('CX') * L('AREA') for pi in ('PI', 'M_PI', 'pi', 'np.pi', 'math.pi')]
            if v is None or not any(v.eq(w) for w in wants):
                bad = (v, p)
                break
        if bad:
            run.fail('C17-R1', K + 'volume|form', ci.mod.relpath, fn.lineno,
                     'volume returns %s on the path %s; documented: 2 pi * centroid radius * area for every polygon' % (
                         bad[0].key()[:160] if bad[0] is not None else None, dict(bad[1].decisions)))
        else:
            run.ok('C17-R1', 'volume', '2 pi * centroid.x * area on %d path(s)' % len(paths))
    except Exception as e:
        run.undecided('C17-R1', 'volume', 'cannot interpret: %s' % e)
    # total volume of a collection
    owners = [c for c in prog.classes.values() if 'total_volume' in c.getters]
    run.subject('C17-R1')
    if not owners:
        raise AnalysisError('anchored property vanished: total_volume')
    for c in owners:
        g = c.getters['total_volume']
        lps = [l for l in ast.walk(g) if isinstance(l, ast.For)]
        gens = [x for x in ast.walk(g) if isinstance(x, (ast.GeneratorExp, ast.ListComp))]
        it = tgt = term = None
        if len(lps) == 1 and isinstance(lps[0].target, ast.Name):
            it, tgt = norm(lps[0].iter), lps[0].target.id
            from ..inline import propagate
            body = propagate(ast.FunctionDef(name='b', args=g.args, body=list(lps[0].body), decorator_list=[], lineno=g.lineno)).body
            for s_ in body:
                if isinstance(s_, ast.AugAssign) and isinstance(s_.op, ast.Add):
                    term = norm(s_.value)
                elif isinstance(s_, ast.Assign) and isinstance(s_.value, ast.BinOp) and isinstance(s_.value.op, ast.Add) and norm(s_.targets[0]) in (
                        norm(s_.value.left), norm(s_.value.right)):
                    term = norm(s_.value.right) if norm(s_.targets[0]) == norm(s_.value.left) else norm(s_.value.left)
        elif len(gens) == 1 and len(gens[0].generators) == 1:
            it, tgt, term = norm(gens[0].generators[0].iter), norm(gens[0].generators[0].target), norm(gens[0].elt)
        from ._purity import check_sum, sum_accumulators
        accn = [a[0] for a in sum_accumulators(g)]
        bad_sum = any(not check_sum(run, 'C17-R1', ci.mod.name + '|%s|total_volume' % c.name, ci.mod.relpath, g, nm_, 'total_volume') for nm_ in set(accn))
        if bad_sum:
            pass
        elif it is None or term is None:
            run.undecided('C17-R1', 'total_volume', 'accumulation not recognised')
        elif term != '%s.volume' % tgt:
            run.fail('C17-R1', ci.mod.name + '|%s|total_volume|term' % c.name, ci.mod.relpath, g.lineno, 'total_volume accumulates %s per voxel, not its volume' % term)
        elif it in ('self._voxels',):
            run.ok('C17-R1', 'total_volume', 'sum of voxel.volume over all voxels')
        elif it in ('self.children', 'self._active_voxels'):
            run.fail('C17-R1', ci.mod.name + '|%s|total_volume|sum' % c.name, ci.mod.relpath, g.lineno,
                     'total_volume sums over %s: only the voxels currently attached as active emitters, not every voxel of the collection' % it)
        else:
            run.undecided('C17-R1', 'total_volume', 'iterates %s' % it)
    run.floor('C17-R1', 8)


def _r3(run, prog, ci):
    """R3: the triangles index the vertex array that is stored -- triangulate2d is given self._vertices as it stands at that point (a local
    bound to it *before* the field is rebound to another array is stale); results handed out by the collection are fresh arrays."""
    run.describe('C17-R3', 'triangulation computed from the stored vertex order; returned arrays are not buffers kept on the instance')
    init = ci.methods.get('__init__')
    if init is None:
        raise AnalysisError('anchored method vanished: AxisymmetricVoxel.__init__')
    K = ci.mod.name + '|AxisymmetricVoxel|__init__|'
    calls = [c for c in ast.walk(init) if isinstance(c, ast.Call) and dotted(c.func) == 'triangulate2d' and c.args]
    rebinds = [st for st in ast.walk(init) if isinstance(st, ast.Assign) and any(norm(t) == 'self._vertices' for t in st.targets)]
    for c in calls:
        run.subject('C17-R3')
        a = c.args[0]
        txt = norm(a)
        if txt in ('self._vertices', 'self._vertices.base', 'np.asarray(self._vertices)'):
            run.ok('C17-R3', 'triangulation source', txt, sample=False)
            continue
        if isinstance(a, ast.Name):
            defs = [st for st in ast.walk(init) if isinstance(st, ast.Assign) and any(isinstance(t, ast.Name) and t.id == a.id for t in st.targets)]
            if len(defs) == 1 and norm(defs[0].value) in ('self._vertices', 'self._vertices.base', 'np.asarray(self._vertices)'):
                later = [r for r in rebinds if defs[0].lineno < r.lineno < c.lineno]
                if later:
                    run.fail('C17-R3', K + 'stale-vertices', ci.mod.relpath, c.lineno,
                             "triangulate2d is given '%s', bound to the vertex array at line %d, but self._vertices is rebound at line %d before the "
                             "call: the triangle indices refer to the old vertex order (the winding normalisation reverses it)"
                             % (a.id, defs[0].lineno, later[0].lineno))
                else:
                    run.ok('C17-R3', 'triangulation source', '%s = %s' % (a.id, norm(defs[0].value)), sample=False)
                continue
        run.undecided('C17-R3', 'triangulation source', 'argument %s not traced to the stored vertices' % txt[:40])
    # the stored vertex array is the voxel's own: the constructor reverses it in place, and area / centroid are computed from it later
    from ._purity import may_be_callers_array
    for st in rebinds:
        run.subject('C17-R3')
        who = may_be_callers_array(init, st.value)
        if who:
            run.fail('C17-R3', K + 'vertices-alias|' + who, ci.mod.relpath, st.lineno,
                     "the vertex array is bound to %s, which can be the caller's own array '%s' (no copy is made when it already has the "
                     "requested type and layout): the winding normalisation then reverses the caller's polygon in place, and a later write "
                     "by the caller changes the area, centroid and volume of a voxel that was built from another polygon" % (norm(st.value)[:60], who))
        else:
            run.ok('C17-R3', 'vertex array owned by the voxel', norm(st.value)[:60], sample=False)
    # ... and nothing reorders the stored vertices afterwards (the winding normalisation reverses them in place)
    pos = {}

    def _num(n_, k_=[0]):
        pos[id(n_)] = k_[0]
        k_[0] += 1
        for c_ in ast.iter_child_nodes(n_):
            _num(c_)
    _num(init)
    for c in calls:
        run.subject('C17-R3')
        later = []
        for st in ast.walk(init):
            if isinstance(st, ast.Assign) and pos[id(st)] > pos[id(c)]:
                for t in st.targets:
                    b_ = t
                    while isinstance(b_, ast.Subscript):
                        b_ = b_.value
                    if norm(b_) == 'self._vertices':
                        later.append(st)
        if later:
            run.fail('C17-R3', K + 'vertices-reordered-after-triangulation', ci.mod.relpath, later[0].lineno,
                     'the vertex array is written (%s) after the triangles were computed from it: for an anticlockwise polygon the triangle indices '
                     'refer to the order before the reversal, so samples are drawn from triangles that are not part of the cross-section'
                     % norm(later[0])[:60])
        else:
            run.ok('C17-R3', 'triangulation after the last write of the vertices', 'no later store into self._vertices', sample=False)
    from ._purity import returns_held_buffer
    for cq, c2 in sorted(prog.classes.items()):
        if c2.mod is not ci.mod:
            continue
        for mname, m in sorted(c2.methods.items()):
            if mname.startswith('_'):
                continue
            for r, fld in returns_held_buffer(m):
                run.subject('C17-R3')
                run.fail('C17-R3', '%s|%s|%s|held-result:%s' % (ci.mod.name, c2.name, mname, fld), ci.mod.relpath, r.lineno,
                         "%s.%s fills and returns an array that is also kept in self.%s and reused by the next call: a result the caller still "
                         "holds is overwritten, so it no longer is the area-mean of the function it was computed for" % (c2.name, mname, fld))
    run.subject('C17-R3')
    run.ok('C17-R3', 'returned arrays', 'checked on every public method of the module', sample=False)
    run.floor('C17-R3', 2)


def _r2(run, ci):
    run.describe('C17-R2', 'sampling wiring: cumulative triangle areas, lookup with total_area * uniform(), the chosen triangle\'s vertices, mean of samples')
    K = ci.mod.name + '|AxisymmetricVoxel|emissivity_from_function|'
    fn = ci.methods.get('emissivity_from_function')
    if fn is None:
        raise AnalysisError('anchored method vanished: AxisymmetricVoxel.emissivity_from_function')
    from ..inline import flatten, module_lookup
    fn = flatten(fn, module_lookup(ci.mod))
    loops = [l for l in fn.body if isinstance(l, ast.For)]
    if len(loops) != 2:
        run.undecided('C17-R2', 'emissivity_from_function', 'expected two loops')
        return
    l1, l2 = loops
    j = norm(l1.target)
    e = SymEval()
    body = [st for st in l1.body if isinstance(st, ast.Assign)]
    run_block(e, body)
    run.subject('C17-R2')
    ta = e.env.get('triangle_area')
    ok = False
    if ta is not None:
        # 0.5 * abs(det)
        st = [s for s in body if norm(s.targets[0]) == 'triangle_area'][0]
        v = st.value
        txt = norm(v)
        inner = None
        for c in ast.walk(v):
            if isinstance(c, ast.Call) and dotted(c.func) in ('abs', 'fabs'):
                inner = c.args[0]
        if inner is not None:
            det = e.ev(inner)
            def P(k, col):
                return L('self._vertices[self._triangles[%s,%d],%d]' % (j, k, col))
            x1, y1, x2, y2, x3, y3 = P(0, 0), P(0, 1), P(1, 0), P(1, 1), P(2, 0), P(2, 1)
            want = x1 * y2 + x2 * y3 + x3 * y1 - x2 * y1 - x3 * y2 - x1 * y3
            half = txt.replace(' ', '').startswith('0.5*') or txt.replace(' ', '').endswith('/2')
            ok = (det.eq(want) or det.eq(C(0) - want)) and half
    if ok:
        run.ok('C17-R2', 'triangle area', '1/2 |x1 y2 + x2 y3 + x3 y1 - x2 y1 - x3 y2 - x1 y3| of the triangle\'s own vertices')
    else:
        run.fail('C17-R2', K + 'triangle-area', ci.mod.relpath, l1.lineno, 'triangle area is %s' % (ta.key()[:200] if ta is not None else None))
    run.subject('C17-R2')
    cum = [norm(s) for s in ast.walk(l1) if isinstance(s, ast.Assign) and norm(s.targets[0]).startswith('cumulative_areas[')]
    want_c = ['cumulative_areas[%s] = triangle_area' % j, 'cumulative_areas[%s] = cumulative_areas[%s - 1] + triangle_area' % (j, j)]
    first_if = [s for s in l1.body if isinstance(s, ast.If)]
    if cum == want_c and first_if and norm(first_if[0].test) == '%s == 0' % j and norm(l1.iter) == 'range(num_triangles)':
        run.ok('C17-R2', 'cumulative areas', 'c[0] = a_0 ; c[j] = c[j-1] + a_j for every triangle')
    else:
        run.fail('C17-R2', K + 'cumulative', ci.mod.relpath, l1.lineno, 'cumulative triangle areas are built as %s' % cum)
    run.subject('C17-R2')
    defs = {}
    for tg, v, st in stores(fn):
        defs.setdefault(norm(tg), []).append(norm(v))
    look = defs.get('tri_index', [])
    if 'find_index(cumulative_areas, total_area * uniform()) + 1' in look and '0' in look and defs.get('total_area') == ['self.cross_sectional_area']:
        run.ok('C17-R2', 'triangle lookup', 'find_index(cumulative_areas, total_area * uniform()) + 1 ; single triangle -> 0')
    else:
        run.fail('C17-R2', K + 'lookup', ci.mod.relpath, l2.lineno, 'triangle chosen by %s with total_area = %s' % (look, defs.get('total_area')))
    run.subject('C17-R2')
    # the sample is drawn inside the chosen triangle: point_triangle of its three corners (r, 0, z), corner k being vertex
    # triangles[tri_index, k] -- decided on the values (helpers expanded, locals substituted in statement order), whatever the names
    import copy as _copy
    try:
        from ..inline import flatten as _flatten, class_lookup as _class_lookup
        f2 = _flatten(fn, _class_lookup(_PROG[0], ci)) if _PROG[0] is not None else fn
    except Exception:
        f2 = fn
    env_ = {}

    class _S(ast.NodeTransformer):
        def visit_Name(self, n):
            return _copy.deepcopy(env_[n.id]) if n.id in env_ and isinstance(n.ctx, ast.Load) else n
    loops2 = [l for l in ast.walk(f2) if isinstance(l, ast.For) and any(isinstance(c, ast.Call) and dotted(c.func) == 'point_triangle' for c in ast.walk(l))]
    sp_val = None

    def _seq(stmts):
        nonlocal sp_val
        for st in stmts:
            if isinstance(st, ast.Assign) and len(st.targets) == 1 and isinstance(st.targets[0], ast.Name):
                v_ = _S().visit(_copy.deepcopy(st.value))
                if isinstance(v_, ast.Call) and dotted(v_.func) == 'point_triangle':
                    sp_val = v_
                if st.targets[0].id != 'tri_index' and not (isinstance(st.value, ast.Call) and dotted(st.value.func) in ('find_index', 'uniform')):
                    env_[st.targets[0].id] = v_
            elif isinstance(st, (ast.If, ast.For, ast.While)):
                for b_ in (st.body, st.orelse):
                    _seq(b_)
    if loops2:
        _seq(loops2[0].body)
    want_ = ['new_point3d(self._vertices[self._triangles[tri_index, %d], 0], 0.0, self._vertices[self._triangles[tri_index, %d], 1])' % (k, k) for k in range(3)]
    got_ = [norm(a) for a in sp_val.args] if sp_val is not None else None
    if got_ == want_:
        run.ok('C17-R2', 'sample inside the chosen triangle', 'point_triangle of the three vertices (r, 0, z) of triangle tri_index')
    elif got_ is not None and len(got_) == 3 and all(g.startswith('new_point3d(') for g in got_):
        run.fail('C17-R2', K + 'sample-vertices', ci.mod.relpath, l2.lineno, 'the sample is drawn in the triangle with corners %s; documented: corner k is '
                 '(r, 0, z) of vertex triangles[tri_index, k]' % [g[:70] for g in got_])
    else:
        run.undecided('C17-R2', 'sample inside the chosen triangle', 'corners not resolved: %s' % (got_ and [g[:40] for g in got_]))
    from ._purity import check_sum
    check_sum(run, 'C17-R2', K + 'mean', ci.mod.relpath, fn, 'emissivity', 'emissivity_from_function')
    run.subject('C17-R2')
    acc = [s for s in l2.body if isinstance(s, ast.AugAssign) and norm(s.target) == 'emissivity']
    div = [s for s in fn.body if isinstance(s, ast.AugAssign) and isinstance(s.op, ast.Div) and norm(s.target) == 'emissivity']
    ret = [r for r in ast.walk(fn) if isinstance(r, ast.Return)]
    if acc and norm(acc[0].value) == 'emiss_function.evaluate(sample_point.x, 0, sample_point.z)' and div and norm(div[0].value) == fn.args.args[2].arg \
            and norm(l2.iter) == 'range(%s)' % fn.args.args[2].arg and ret and norm(ret[-1].value) == 'emissivity':
        run.ok('C17-R2', 'mean of samples', 'sum f(r, 0, z) / grid_samples')
    else:
        run.fail('C17-R2', K + 'mean', ci.mod.relpath, l2.lineno, 'the estimate is not the mean of the function at the sampled points over grid_samples samples')
    run.floor('C17-R2', 5)


MUTANTS = [
    dict(name='triangulation-before-the-winding-normalisation', file=FILE,
         find="        if not winding2d(self._vertices):\n            self._vertices[:] = self._vertices[::-1]\n\n        self._triangles = triangulate2d(self._vertices.base)\n",
         replace="        self._triangles = triangulate2d(self._vertices.base)\n        if not winding2d(self._vertices):\n            self._vertices[:] = self._vertices[::-1]\n", expect='C17-R3'),
    dict(name='triangulation-of-the-unreversed-vertices', file=FILE,
         find="        if not winding2d(self._vertices):\n            self._vertices[:] = self._vertices[::-1]\n\n        self._triangles = triangulate2d(self._vertices.base)",
         replace="        coords = self._vertices.base\n        if not winding2d(self._vertices):\n            self._vertices = coords[::-1].copy()\n\n        self._triangles = triangulate2d(coords)", expect='C17-R3'),
    dict(name='emissivities-buffer-kept-on-the-collection', file=FILE,
         find="        emissivities = np.zeros(self.count)\n", replace="        emissivities = getattr(self, '_emissivities', None)\n        if emissivities is None:\n            emissivities = self._emissivities = np.zeros(self.count)\n", expect='C17-R3'),
    dict(name='closing-term-index-slip', file=FILE, find="            area += x[num_vertices - 1] * y[0] - x[0] * y[num_vertices - 1]\n        return abs(area) / 2", replace="            area += x[num_vertices - 1] * y[0] - x[0] * y[num_vertices - 2]\n        return abs(area) / 2", expect='C17-R1'),
    dict(name='centroid-divisor', file=FILE, find="        cx /= (6 * area)", replace="        cx /= (3 * area)", expect='C17-R1'),
    dict(name='abs-dropped-from-area', file=FILE, find="        return abs(area) / 2", replace="        return area / 2", expect='C17-R1'),
    dict(name='cy-uses-x-sums', file=FILE, find="                cy += (y[i] + y[i + 1]) * (x[i] * y[i + 1] - x[i + 1] * y[i])", replace="                cy += (x[i] + x[i + 1]) * (x[i] * y[i + 1] - x[i + 1] * y[i])", expect='C17-R1'),
    dict(name='closing-term-dropped', file=FILE, find="            cx += ((x[num_vertices - 1] + x[0])\n                   * (x[num_vertices - 1] * y[0] - x[0] * y[num_vertices - 1]))\n", replace="", expect='C17-R1'),
    dict(name='volume-without-2pi', file=FILE, find="return 2 * PI * self.cross_section_centroid.x * self.cross_sectional_area", replace="return PI * self.cross_section_centroid.x * self.cross_sectional_area", expect='C17-R1'),
    dict(name='centroid-uses-absolute-area', file=FILE, find="        area /= 2\n", replace="        area = abs(area) / 2\n", expect='C17-R1'),
    dict(name='cumulative-not-cumulative', file=FILE, find="cumulative_areas[triangle_j] = (cumulative_areas[triangle_j - 1] + triangle_area)", replace="cumulative_areas[triangle_j] = triangle_area", expect='C17-R2'),
    dict(name='sample-vertex-reused', file=FILE, find="            v3_i = self._triangles[tri_index, 2]\n            v3_p", replace="            v3_i = self._triangles[tri_index, 1]\n            v3_p", expect='C17-R2'),
    dict(name='mean-not-divided', file=FILE, find="        emissivity /= grid_samples\n", replace="", expect='C17-R2'),
    dict(name='loop-skips-edge', file=FILE, find="            for i in range(num_vertices - 1):\n                area += x[i] * y[i + 1] - x[i + 1] * y[i]\n            area += x[num_vertices - 1] * y[0] - x[0] * y[num_vertices - 1]\n        return", replace="            for i in range(num_vertices - 2):\n                area += x[i] * y[i + 1] - x[i + 1] * y[i]\n            area += x[num_vertices - 1] * y[0] - x[0] * y[num_vertices - 1]\n        return", expect='C17-R1'),
]
TWINS = [
    dict(name='term-reordered', file=FILE, find="        return abs(area) / 2", replace="        return 0.5 * abs(area)"),
]
