"""C18 -- laser profiles and laser spectra (DESIGN section 5, C18)."""
import ast
import difflib
from fractions import Fraction

from ..program import Program, dotted, norm
from ..report import AnalysisError
from ..effects import Effects, self_chain
from ..algebra import SymEval, C, L, Rat, run_block, Undecided

FILES = ['cherab/core/model/laser/profile.pyx', 'cherab/core/model/laser/math_functions.pyx',
         'cherab/core/model/laser/laserspectrum.pyx', 'cherab/core/laser/profile.pyx', 'cherab/core/laser/laserspectrum.pyx',
         'cherab/core/laser/node.pyx']
PROFILES = ['UniformEnergyDensity', 'ConstantBivariateGaussian', 'TrivariateGaussian', 'GaussianBeamAxisymmetric']
SPECTRA = ['ConstantSpectrum', 'GaussianSpectrum']
BUILDERS = ('_function_changed', '_update_cache')


def check(run):
    prog = Program()
    prog.load_many(FILES)
    for f in FILES:
        run.use_file(f)
    eff = Effects(prog)
    run.explanation = (
        'Decides structural necessary conditions of C18 on all four laser profiles and both laser spectra: (R1) every setter '
        'writing a field read by the builder of the energy-density function / binned spectrum (resolved on the concrete class, '
        'through virtual calls) re-runs that builder, and every setter writing a field read by generate_geometry notifies the '
        'laser node; (R2) the energy-density function is pulse_energy / (c * pulse_length) times the unit distribution for the '
        'two constant-in-z Gaussian profiles and pulse_energy times the unit-volume distribution for the pulsed one (exact '
        'rational forms); (R3) generate_segmented_cylinder: segment i starts at i * (length / n) with height length / n, a '
        'single cylinder of the full length otherwise, never an empty list; (R4) no two differently named accessors of a class '
        'return the same field; (R5) the binned spectrum: delta = (max - min) / bins, centres min + (i + 1/2) delta, bin power '
        '= density * delta, Gaussian bin density from erf differences over the bin edges with the documented scaling. Does not '
        'decide cross-section / volume integrals of the distribution functions, erf accuracy or sum-to-one numerically.')
    run.assumptions = ['raysect Function3D arithmetic (scalar * function) is pointwise', 'erf is the error function']
    classes = {c.name: c for c in prog.classes.values()}
    for n in PROFILES + SPECTRA + ['LaserSpectrum', 'LaserProfile']:
        if n not in classes:
            raise AnalysisError('anchored class vanished: %s' % n)
    _r1(run, prog, eff, classes)
    _r2(run, prog, classes)
    _r3(run, prog)
    _r4(run, prog, classes)
    _r5(run, prog, classes)
    _r6(run, prog, eff)
    from ._memo import check_inline_memos, check_ctor_derived, selfcheck
    selfcheck()
    scope = [c for c in prog.classes.values() if c.mod.relpath in FILES]
    check_inline_memos(run, 'C18-R7', prog, eff, sorted(scope, key=lambda c_: c_.qual))
    check_ctor_derived(run, 'C18-R7', prog, eff, sorted(scope, key=lambda c_: c_.qual))
    run.subject('C18-R7')
    run.ok('C18-R7', 'memo rules', 'self-check on the built-in examples passed', sample=False)
    run.include('C01', {'cherab/core/laser/node.pyx', 'cherab/core/laser/laserspectrum.pyx', 'cherab/core/laser/profile.pyx', 'cherab/core/laser/material.pyx', 'cherab/core/utility/notify.py'},
                'the laser node rebuilds its segments and materials when the profile, spectrum or models change')
    from ..cachekey import check_caches
    check_caches(run, [m_ for m_ in prog.modules.values() if m_.relpath in set(FILES) and not m_.name.endswith('#pxd')], 'C18-K', prog=prog)


def _r6(run, prog, eff):
    """R6: the unit distributions are positive everywhere -- evaluate() has no path that returns a constant (a cut-off removes part of
    the integral, so the cross-section no longer carries the whole pulse energy); the Gaussian beam prefactor is 1 / (2 pi sigma(z)^2)
    for the same sigma(z)^2 that divides r^2 in the exponent; detaching the old laser segments does not iterate the list it shrinks."""
    import copy
    run.describe('C18-R6', 'distribution functions: no truncated path, beam prefactor matches its exponent; segment detachment iterates a stable list')
    mf = prog.modules['cherab.core.model.laser.math_functions']
    for cname, c in sorted((c.name, c) for c in prog.classes.values() if c.mod is mf):
        fn = c.methods.get('evaluate')
        if fn is None:
            continue
        rets = [r for r in ast.walk(fn) if isinstance(r, ast.Return) and r.value is not None]
        if not any(isinstance(x, ast.Call) and dotted(x.func) == 'exp' for r in rets for x in ast.walk(r.value)):
            continue
        run.subject('C18-R6')
        cut = [r for r in rets if isinstance(r.value, ast.Constant) or (isinstance(r.value, ast.UnaryOp) and isinstance(r.value.operand, ast.Constant))]
        if cut:
            run.fail('C18-R6', '%s|%s|evaluate|truncated' % (mf.name, cname), mf.relpath, cut[0].lineno,
                     '%s.evaluate returns the constant %s on some path: the Gaussian is cut off there, so its integral over the cross-section '
                     '(volume) is below one and the energy density no longer carries the whole pulse energy' % (cname, norm(cut[0].value)))
        else:
            run.ok('C18-R6', cname + '.evaluate', 'every path returns the exponential form (%d return)' % len(rets), sample=False)
    c = prog.classes.get(mf.name + '.GaussianBeamModel')
    if c is None or c.methods.get('evaluate') is None:
        raise AnalysisError('anchored class vanished: GaussianBeamModel')
    fn = c.methods['evaluate']
    run.subject('C18-R6')
    ev = SymEval()
    run_block(ev, [st for st in fn.body if not isinstance(st, (ast.If, ast.Return))], [])
    rets = [r for r in ast.walk(fn) if isinstance(r, ast.Return) and r.value is not None and not isinstance(r.value, ast.Constant)]
    exps = [x for x in ast.walk(rets[-1].value) if isinstance(x, ast.Call) and dotted(x.func) == 'exp'] if rets else []
    ps = [a.arg for a in fn.args.args[1:4]]
    if len(exps) != 1 or len(ps) != 3:
        run.undecided('C18-R6', 'GaussianBeamModel form', 'return value without exactly one exp()')
    else:
        A = ev.ev(exps[0].args[0])

        class R(ast.NodeTransformer):
            def visit_Call(self, n):
                return ast.Constant(value=1) if n is exps0 else self.generic_visit(n)
        rv = copy.deepcopy(rets[-1].value)
        exps0 = [x for x in ast.walk(rv) if isinstance(x, ast.Call) and dotted(x.func) == 'exp'][0]
        P = ev.ev(R().visit(rv))
        r2 = L(ps[0]) * L(ps[0]) + L(ps[1]) * L(ps[1])
        try:
            s2 = C(0) - r2 / (C(2) * A)
            good = P.eq(C(1) / (C(2) * L('pi') * s2)) or P.eq(C(1) / (C(2) * L('M_PI') * s2))
        except ZeroDivisionError:
            good = False
        zdep = any(ps[2] in l or 'z_prime' in l for l in A.leaves()) or ps[2] in A.key()
        if good and zdep:
            run.ok('C18-R6', 'GaussianBeamModel form', '1 / (2 pi s2) * exp(-r2 / (2 s2)) with the same s2(z)')
        elif good:
            run.fail('C18-R6', '%s|GaussianBeamModel|evaluate|width' % mf.name, mf.relpath, fn.lineno,
                     'GaussianBeamModel.evaluate: the width in the exponent does not depend on z (no beam divergence)')
        else:
            run.fail('C18-R6', '%s|GaussianBeamModel|evaluate|prefactor' % mf.name, mf.relpath, fn.lineno,
                     'GaussianBeamModel.evaluate: prefactor %s is not 1 / (2 pi sigma^2) for the sigma^2 of its exponent %s: the cross-section '
                     'integral is not one' % (P.key()[:60], A.key()[:60]))
    # the laser node detaches its old segments by iterating its own record, not the children list that shrinks as they are detached
    from ._purity import shrinking_iteration
    laser = prog.classes.get('cherab.core.laser.node.Laser')
    if laser is None:
        raise AnalysisError('anchored class vanished: Laser')
    run.subject('C18-R6')
    bad = [(m, st, txt) for m in list(laser.methods.values()) + list(laser.setters.values()) for st, txt in shrinking_iteration(m)]
    if bad:
        m, st, txt = bad[0]
        run.fail('C18-R6', 'cherab.core.laser.node|Laser|%s|shrinking-iteration' % m.name, laser.mod.relpath, st.lineno,
                 'Laser.%s iterates %s while re-parenting its elements, which removes them from that very list: every second old segment is '
                 'skipped and stays attached next to the new ones' % (m.name, txt))
    else:
        run.ok('C18-R6', 'Laser segment detachment', 'no loop re-parents the elements of the children list it iterates')


def _fields(prog, ci, reads):
    out = set()
    for r in reads:
        head = r.split('.')[0]
        if prog.field(ci, head) is not None:
            out.add(head)
    return out


def _r1(run, prog, eff, classes):
    run.describe('C18-R1', 'setter writing a source of _function_changed / _update_cache re-runs it; geometry sources notify')
    for cname in PROFILES + SPECTRA:
        ci = classes[cname]
        run.functions += len(ci.methods) + len(ci.setters)
        builders = [(b, eff.resolve(ci, b)) for b in BUILDERS if eff.resolve(ci, b) is not None]
        for b, bfn in builders:
            clo = eff.closure(ci, bfn)
            derived = set(clo.writes)
            src = _fields(prog, ci, clo.reads) - derived
            # fields derived by the builder but also written eagerly elsewhere (e.g. _delta_wavelength) are not sources
            for kind, name, fn, dc in eff.public_mutators(ci):
                own = eff.closure(ci, fn, stop=(b,))
                hit = sorted(f for f in own.writes if f in src)
                if not hit:
                    continue
                run.subject('C18-R1')
                full = eff.closure(ci, fn)
                if b in full.selfcalls:
                    run.ok('C18-R1', '%s.%s -> %s' % (cname, name, b), 'writes %s' % hit)
                else:
                    other = 'it notifies instead' if '' in full.notifies else 'nothing is refreshed'
                    run.fail('C18-R1', '%s|%s|setter:%s|stale:%s' % (dc.mod.name, cname, name, b), dc.mod.relpath, fn.lineno,
                             "%s.%s writes %s, which %s reads, but does not re-run it (%s): the %s keeps the old parameters"
                             % (cname, name, hit, b, other, 'energy density' if b == '_function_changed' else 'binned spectrum'))
        # geometry
        g = eff.resolve(ci, 'generate_geometry')
        if g is not None and cname in PROFILES:
            gsrc = _fields(prog, ci, eff.closure(ci, g).reads)
            for kind, name, fn, dc in eff.public_mutators(ci):
                full = eff.closure(ci, fn)
                hit = sorted(f for f in full.writes if f in gsrc)
                if not hit:
                    continue
                run.subject('C18-R1')
                from ..flow import refreshed_after_write
                okord, why = refreshed_after_write(fn, set(hit), lambda c: isinstance(c.func, ast.Attribute) and c.func.attr == 'notify'
                                                   and norm(c.func.value) in ('self.notifier', 'self._notifier')) if '' in eff.summary(fn).notifies else (True, '')
                if '' in full.notifies and okord:
                    run.ok('C18-R1', '%s.%s -> notify (geometry)' % (cname, name), 'writes %s' % hit)
                elif '' in full.notifies:
                    run.fail('C18-R1', '%s|%s|setter:%s|geometry-notify-order' % (dc.mod.name, cname, name), dc.mod.relpath, fn.lineno,
                             '%s.%s writes %s, which sizes the laser segments, but %s: a laser attached to the profile builds its segments from '
                             'the previous value' % (cname, name, hit, why))
                else:
                    run.fail('C18-R1', '%s|%s|setter:%s|geometry-no-notify' % (dc.mod.name, cname, name), dc.mod.relpath, fn.lineno,
                             '%s.%s writes %s, which sizes the laser segments, but does not notify the laser node' % (cname, name, hit))
        # eager profile (no builder): the setter of the energy density installs the function itself
        if cname == 'UniformEnergyDensity':
            run.subject('C18-R1')
            sc, st = prog.find_setter(ci, 'energy_density')
            clo = eff.closure(ci, st) if st is not None else None
            if clo is not None and '_energy_density' in clo.writes and 'set_energy_density_function' in clo.selfcalls:
                run.ok('C18-R1', 'UniformEnergyDensity.energy_density', 'installs Constant3D(value)')
            else:
                run.fail('C18-R1', '%s|UniformEnergyDensity|setter:energy_density|not-installed' % ci.mod.name, ci.mod.relpath, ci.node.lineno,
                         'UniformEnergyDensity.energy_density does not install the new energy density function')
    # "nothing to do when the value is unchanged" is only true once the derived state has been computed from that value: a field that the
    # constructor presets directly (self._f = 1) and then assigns through its setter is skipped when the caller asks for exactly the preset
    for cname in PROFILES + SPECTRA:
        ci = classes[cname]
        presets = {}
        for c_ in prog.mro(ci):
            init_ = c_.methods.get('__init__')
            for st_ in (ast.walk(init_) if init_ is not None else ()):
                if isinstance(st_, ast.Assign) and len(st_.targets) == 1 and isinstance(st_.value, ast.Constant) and self_chain(st_.targets[0]) \
                        and '.' not in self_chain(st_.targets[0]):
                    presets.setdefault(self_chain(st_.targets[0]), st_)
        for c_ in prog.mro(ci):
            for sname, sfn in c_.setters.items():
                if len(sfn.args.args) < 2:
                    continue
                p_ = sfn.args.args[1].arg
                for iff in [n for n in sfn.body if isinstance(n, ast.If)]:
                    t_ = iff.test
                    if isinstance(t_, ast.Compare) and len(t_.ops) == 1 and isinstance(t_.ops[0], (ast.Eq, ast.Is)) \
                            and any(isinstance(x, ast.Return) for x in iff.body) and not any(isinstance(x, ast.Raise) for x in ast.walk(iff)):
                        sides = [t_.left, t_.comparators[0]]
                        fld = [self_chain(x) for x in sides if self_chain(x)]
                        if any(isinstance(x, ast.Name) and x.id == p_ for x in sides) and fld and fld[0] in presets:
                            writes = [f for f in eff.closure(ci, sfn).writes if f != fld[0]]
                            if writes or eff.closure(ci, sfn).selfcalls:
                                run.subject('C18-R1')
                                run.fail('C18-R1', '%s|%s|setter:%s|skipped-at-preset' % (c_.mod.name, cname, sname), c_.mod.relpath, iff.lineno,
                                         "%s.%s returns early when the new value equals self.%s, but the constructor presets self.%s = %s directly (line %d) "
                                         "before assigning through this setter: a %s constructed with exactly that value never computes %s from it"
                                         % (cname, sname, fld[0], fld[0], norm(presets[fld[0]].value), presets[fld[0]].lineno, cname,
                                            sorted(writes) or 'its derived state'))
    # Laser subscribes configure_geometry to the profile
    laser = [c for c in prog.classes.values() if c.qual == 'cherab.core.laser.node.Laser']
    if not laser:
        raise AnalysisError('anchored class vanished: Laser')
    sc, st = prog.find_setter(laser[0], 'laser_profile')
    run.subject('C18-R1')
    regs = [(op, owner, cb) for op, owner, cb, node in eff.summary(st).regs]
    if ('add', '_laser_profile', 'configure_geometry') in regs:
        run.ok('C18-R1', 'Laser.laser_profile subscribes configure_geometry', regs)
    else:
        run.fail('C18-R1', 'cherab.core.laser.node|Laser|setter:laser_profile|subscription', laser[0].mod.relpath, st.lineno,
                 'Laser.laser_profile does not subscribe configure_geometry to the profile notifier: %s' % regs)
    run.floor('C18-R1', 25)


class ProfEval(SymEval):
    def call(self, n):
        f = dotted(n.func)
        if f and f[0].isupper() and '.' not in f and f not in ('Vector3D', 'Point3D'):
            return L('dist:' + f)
        return super().call(n)


def _r2(run, prog, classes):
    run.describe('C18-R2', 'energy density = pulse_energy / (c * pulse_length) * distribution (constant-in-z) ; pulse_energy * distribution (pulsed)')
    want = {'ConstantBivariateGaussian': lambda d: L('self._pulse_energy') / (L('SPEED_OF_LIGHT') * L('self._pulse_length')) * d,
            'GaussianBeamAxisymmetric': lambda d: L('self._pulse_energy') / (L('SPEED_OF_LIGHT') * L('self._pulse_length')) * d,
            'TrivariateGaussian': lambda d: L('self._pulse_energy') * d}
    for cname, form in want.items():
        ci = classes[cname]
        fn = ci.methods.get('_function_changed')
        run.subject('C18-R2')
        if fn is None:
            raise AnalysisError('anchored method vanished: %s._function_changed' % cname)
        ev = ProfEval()
        rec = []
        run_block(ev, fn.body, rec)
        calls = [r for r in rec if r[0] == 'call:self.set_energy_density_function']
        if len(calls) != 1:
            run.undecided('C18-R2', cname, 'set_energy_density_function not called exactly once')
            continue
        got = ev.ev(calls[0][1].args[0])
        dist = [l for l in got.leaves() if l.startswith('dist:')]
        if len(dist) != 1:
            run.fail('C18-R2', '%s|%s|_function_changed|no-distribution' % (ci.mod.name, cname), ci.mod.relpath, fn.lineno,
                     '%s installs %s, which does not contain exactly one distribution function' % (cname, got))
            continue
        if got.eq(form(L(dist[0]))):
            run.ok('C18-R2', cname + ' normalisation', str(got))
        else:
            run.fail('C18-R2', '%s|%s|_function_changed|normalisation' % (ci.mod.name, cname), ci.mod.relpath, fn.lineno,
                     '%s installs the energy density %s; documented: %s' % (cname, got, form(L(dist[0]))))
        # the distribution is built from the current parameters
        dcall = [n for n in ast.walk(fn) if isinstance(n, ast.Call) and dotted(n.func) == dist[0][5:]]
        run.subject('C18-R2')
        args = [norm(a) for a in dcall[0].args] if dcall else []
        if dcall and all(a.startswith('self._') for a in args):
            run.ok('C18-R2', cname + ' distribution arguments', args)
        else:
            run.fail('C18-R2', '%s|%s|_function_changed|distribution-args' % (ci.mod.name, cname), ci.mod.relpath, fn.lineno,
                     '%s builds its distribution from %s' % (cname, args))
    # pulsed profile: axial width = c * pulse_length
    ci = classes['TrivariateGaussian']
    sc, st = prog.find_setter(ci, 'pulse_length')
    run.subject('C18-R2')
    ev = SymEval()
    rec = []
    run_block(ev, st.body, rec)
    sz = [r for r in rec if r[0] == 'self._stddev_z']
    if sz and ev.env.get('self._pulse_length') is not None and sz[-1][1].eq(ev.env['self._pulse_length'] * L('SPEED_OF_LIGHT')) \
            and ev.env['self._pulse_length'].eq(L(st.args.args[1].arg)):
        run.ok('C18-R2', 'TrivariateGaussian axial width', 'stddev_z = pulse_length * c')
    else:
        run.fail('C18-R2', '%s|TrivariateGaussian|setter:pulse_length|stddev_z' % ci.mod.name, ci.mod.relpath, st.lineno,
                 'TrivariateGaussian.pulse_length sets the axial width to %s, expected pulse_length * SPEED_OF_LIGHT' % (sz[-1][1] if sz else None))
    # unit-integral Gaussians in math_functions
    mf = prog.modules['cherab.core.model.laser.math_functions']
    for cname, nd in (('ConstantBivariateGaussian3D', 2), ('TrivariateGaussian3D', 3)):
        c = prog.classes.get(mf.name + '.' + cname)
        if c is None:
            raise AnalysisError('anchored class vanished: %s' % cname)
        run.subject('C18-R2')
        ok, why = _unit_gaussian(prog, c, nd)
        if ok:
            run.ok('C18-R2', cname + ' unit integral form', why)
        else:
            run.fail('C18-R2', '%s|%s|normalisation' % (mf.name, cname), mf.relpath, c.node.lineno,
                     '%s is not the unit-integral Gaussian: %s' % (cname, why))
    run.floor('C18-R2', 8)


def _unit_gaussian(prog, c, nd):
    """prefactor 1/((2 pi)^(nd/2) prod sigma) and exponent -sum x_i^2 / (2 sigma_i^2) (checked on the setters / evaluate)."""
    texts = []
    from ..inline import propagate
    for fn in list(c.methods.values()) + list(c.setters.values()):
        try:
            fn = propagate(fn)        # locals standing for the widths / a hoisted constant do not change what is stored
        except Exception:
            pass
        for st in ast.walk(fn):
            if isinstance(st, ast.Assign):
                texts.append((norm(st.targets[0]), st.value, fn))
    ev = SymEval()
    norms = [(t, v, fn) for t, v, fn in texts if 'normalisation' in t]
    if not norms:
        return False, 'no normalisation assignment found'
    sig = ['stddev_x', 'stddev_y', 'stddev_z'][:nd]
    # accept either the constructor/cache form: 1 / (sqrt((2 pi)^nd) * sx * sy [* sz])
    want = C(1)
    for s in sig:
        want = want / L('S_' + s)
    twopi = ev.sqrt((C(2) * L('M_PI')) ** nd) if nd % 2 else (C(2) * L('M_PI')) ** (nd // 2)
    want = want / twopi
    for t, v, fn in norms:
        e = SymEval()
        # map any spelling of the widths to canonical leaves
        class E(SymEval):
            def name(self, n):
                if n.id in ('pi', 'M_PI', 'PI'):
                    return L('M_PI')
                for s in sig:
                    if n.id.endswith(s) or n.id == s:
                        return L('S_' + s)
                return super().name(n)

            def attribute(self, n):
                if norm(n) in ('np.pi', 'math.pi', 'numpy.pi'):
                    return L('M_PI')
                for s in sig:
                    if n.attr.endswith(s):
                        return L('S_' + s)
                return super().attribute(n)
        e = E()
        twopi = e.sqrt((C(2) * L('M_PI')) ** nd) if nd % 2 else (C(2) * L('M_PI')) ** (nd // 2)
        want = C(1)
        for s2 in sig:
            want = want / L('S_' + s2)
        want = want / twopi
        got = e.ev(v)
        got = e.reduce_sqrt(got)
        w = want
        if got.eq(w):
            return True, '%s = %s' % (t, norm(v))
        # sqrt((2pi)^3) may be written as sqrt(2pi)^3 or (2pi)^(3/2)
        sq = e.sqrt(C(2) * L('M_PI'))
        alt = C(1)
        for s in sig:
            alt = alt / L('S_' + s)
        alt = alt / (sq ** nd)
        if e.reduce_sqrt(got * (sq ** nd)).eq(e.reduce_sqrt(alt * (sq ** nd))):
            return True, '%s = %s' % (t, norm(v))
    return False, 'normalisation is %s' % [norm(v) for t, v, fn in norms]


def _r3(run, prog):
    run.describe('C18-R3', 'segmented cylinder tiles [0, length]: segment i at i*(length/n) with height length/n; single cylinder otherwise; never empty')
    mi = prog.modules['cherab.core.model.laser.profile']
    fn = mi.functions.get('generate_segmented_cylinder')
    if fn is None:
        raise AnalysisError('anchored function vanished: generate_segmented_cylinder')
    K = mi.name + '|generate_segmented_cylinder|'
    radius, length = [a.arg for a in fn.args.args[:2]]
    ev = SymEval()
    loops = [n for n in ast.walk(fn) if isinstance(n, ast.For)]
    run.subject('C18-R3')
    # the number of segments is the integer n_segments: offsets generated by a floating-point arange(0, length, step) can number one more
    # than length / step (numpy documents the count as unreliable for non-integer steps), which puts a segment beyond the laser end
    iters = [l.iter for l in loops] + [g.iter for n_ in ast.walk(fn) if isinstance(n_, (ast.ListComp, ast.GeneratorExp)) for g in n_.generators]
    fl = [c for it_ in iters for c in ast.walk(it_) if isinstance(c, ast.Call) and dotted(c.func) in ('np.arange', 'numpy.arange', 'arange')
          and len(c.args) == 3 and not all(isinstance(a, ast.Constant) and isinstance(a.value, int) for a in c.args)]
    if fl:
        run.fail('C18-R3', K + 'float-arange', mi.relpath, fl[0].lineno,
                 'the segment offsets are taken from %s: with a non-integer step the number of offsets depends on rounding and can exceed '
                 'n_segments, so a segment is placed beyond the laser length' % norm(fl[0]))
        return
    if len(loops) != 1 or not (isinstance(loops[0].iter, ast.Call) and dotted(loops[0].iter.func) == 'range' and len(loops[0].iter.args) == 1):
        run.undecided('C18-R3', 'generate_segmented_cylinder', 'loop shape')
        return
    lp = loops[0]
    nvar = norm(lp.iter.args[0])
    i = lp.target.id
    # locals defined before the loop
    run_block(ev, fn.body, None, follow_if=True)
    ev.env[nvar] = L(nvar)
    for k in list(ev.env):
        if k != nvar and nvar in ev.env[k].key() and 'FloorDiv' in ev.env[k].key():
            ev.env.pop(k)
    ev = SymEval({nvar: L(nvar)})
    for st in ast.walk(fn):
        if isinstance(st, ast.Assign) and isinstance(st.targets[0], ast.Name) and st.targets[0].id not in (nvar, 'geometry', 'segment'):
            ev.env[st.targets[0].id] = ev.ev(st.value)
    cyl = [c for c in ast.walk(lp) if isinstance(c, ast.Call) and dotted(c.func) == 'Cylinder']
    if not cyl:
        run.fail('C18-R3', K + 'no-segment', mi.relpath, lp.lineno, 'no Cylinder is created per segment')
        return
    kw = {k.arg: k.value for k in cyl[0].keywords}
    pos = cyl[0].args
    height = kw.get('height', pos[1] if len(pos) > 1 else None)
    rad = kw.get('radius', pos[0] if pos else None)
    tr = kw.get('transform')
    seg = L(length) / L(nvar)
    ev2 = SymEval(ev.env)
    ev2.env.pop(i, None)
    hval = ev2.ev(height) if height is not None else None
    if hval is not None and hval.eq(seg):
        run.ok('C18-R3', 'segment height', 'length / n_segments')
    else:
        run.fail('C18-R3', K + 'segment-height', mi.relpath, cyl[0].lineno, 'segment height is %s, expected %s / %s' % (hval, length, nvar))
    run.subject('C18-R3')
    z = None
    if isinstance(tr, ast.Call) and dotted(tr.func) == 'translate' and len(tr.args) == 3:
        z = ev2.ev(tr.args[2])
        xy = [norm(a) for a in tr.args[:2]]
    if z is not None and z.eq(L(i) * seg) and xy == ['0', '0']:
        run.ok('C18-R3', 'segment origin', 'translate(0, 0, i * length / n_segments)')
    else:
        run.fail('C18-R3', K + 'segment-origin', mi.relpath, cyl[0].lineno,
                 'segment %s starts at %s, expected %s * %s / %s: segments overlap or leave gaps' % (i, z, i, length, nvar))
    run.subject('C18-R3')
    if norm(rad) == radius:
        run.ok('C18-R3', 'segment radius', radius)
    else:
        run.fail('C18-R3', K + 'segment-radius', mi.relpath, cyl[0].lineno, 'segment radius is %s' % norm(rad))
    # single-cylinder branch and no empty path
    others = [c for c in ast.walk(fn) if isinstance(c, ast.Call) and dotted(c.func) == 'Cylinder' and c is not cyl[0]]
    run.subject('C18-R3')
    if len(others) == 1:
        kw = {k.arg: k.value for k in others[0].keywords}
        h = kw.get('height', others[0].args[1] if len(others[0].args) > 1 else None)
        if norm(h) == length and 'transform' not in kw:
            run.ok('C18-R3', 'single cylinder', 'height = length at the origin')
        else:
            run.fail('C18-R3', K + 'single-cylinder', mi.relpath, others[0].lineno, 'short laser: cylinder height %s, transform %s' % (norm(h), norm(kw.get('transform'))))
    else:
        run.fail('C18-R3', K + 'single-cylinder', mi.relpath, fn.lineno, 'expected exactly one single-cylinder branch, found %d' % len(others))
    # branch structure: if n > 1 (loop) / elif covers 0 <= n < 2 / else raise ; return geometry
    run.subject('C18-R3')
    top = [st for st in fn.body if isinstance(st, ast.If)]
    ok = False
    if top:
        t = top[-1]
        first = norm(t.test)
        if first in ('%s > 1' % nvar, '%s >= 2' % nvar) and any(x is lp for x in t.body):
            rest = t.orelse
            if len(rest) == 1 and isinstance(rest[0], ast.If):
                second = norm(rest[0].test)
                if second in ('0 <= %s < 2' % nvar, '%s <= 1' % nvar, '%s < 2' % nvar, '0 <= %s <= 1' % nvar):
                    tail = rest[0].orelse
                    if not tail or all(isinstance(s, ast.Raise) for s in tail):
                        ok = True
            elif rest and not isinstance(rest[0], ast.If):
                ok = any(isinstance(c, ast.Call) and dotted(c.func) == 'Cylinder' for s in rest for c in ast.walk(s))
    if ok:
        run.ok('C18-R3', 'no empty geometry', 'n > 1: n segments; n in {0, 1}: one cylinder; else raise')
    else:
        run.fail('C18-R3', K + 'branch-cover', mi.relpath, fn.lineno,
                 'the branches of generate_segmented_cylinder do not cover n_segments > 1 / n_segments in {0, 1} with a non-empty result')
    run.subject('C18-R3')
    nd = [v for t, v in [(norm(s.targets[0]), s.value) for s in fn.body if isinstance(s, ast.Assign)] if t == nvar]
    if nd and norm(nd[0]) in ('int(%s // (2 * %s))' % (length, radius), 'int(%s / (2 * %s))' % (length, radius)):
        run.ok('C18-R3', 'segment count', norm(nd[0]))
    else:
        run.fail('C18-R3', K + 'segment-count', mi.relpath, fn.lineno, 'segment count is %s, expected int(length // (2 * radius))' % (norm(nd[0]) if nd else None))


def _r4(run, prog, classes):
    run.describe('C18-R4', 'differently named zero-argument accessors of one class never return the same field')
    subjects = [classes[n] for n in PROFILES + SPECTRA + ['LaserSpectrum', 'LaserProfile']]
    for ci in subjects:
        groups = {}
        for c in [ci]:
            accs = [(n, f) for n, f in c.getters.items()] + [(n, f) for n, f in c.methods.items() if n.startswith('get_') and len(f.args.args) == 1]
            for name, fn in accs:
                rets = [r for r in ast.walk(fn) if isinstance(r, ast.Return) and r.value is not None]
                if len(rets) == 1 and self_chain(rets[0].value) and '.' not in self_chain(rets[0].value):
                    groups.setdefault(self_chain(rets[0].value), []).append((name, fn))
        for field, accs in sorted(groups.items()):
            run.subject('C18-R4')
            names = sorted({n[4:] if n.startswith('get_') else n for n, f in accs})
            bad = None
            same = lambda a, b: a in b or b in a or difflib.SequenceMatcher(None, a, b).ratio() >= 0.9
            for a in names:
                for b in names:
                    if a < b and not same(a, b):
                        bad = (a, b)
            if bad:
                fld = field.lstrip('_')
                worst = min(names, key=lambda n: (1 if n in fld or fld in n else 0, difflib.SequenceMatcher(None, n, fld).ratio()))
                culprit = [n for n, f in accs if (n[4:] if n.startswith('get_') else n) == worst]
                fn = [f for n, f in accs if n in culprit][-1]
                run.fail('C18-R4', '%s|%s|accessors:%s' % (ci.mod.name, ci.name, field), ci.mod.relpath, fn.lineno,
                         "%s: accessors %s all return '%s': %s reports another parameter's value" % (ci.name, sorted(n for n, f in accs), field, culprit))
            else:
                run.ok('C18-R4', '%s.%s' % (ci.name, field), sorted(n for n, f in accs), sample=False)
    run.floor('C18-R4', 20)


class SpecEval(SymEval):
    def __init__(self):
        super().__init__()
        self.elem = {}     # base text -> (index var, Rat)
        self.alias_map = {}

    def subscript(self, n):
        base = dotted(n.value)
        if base:
            base = self.alias(base)
            if base in self.elem:
                ivar, form = self.elem[base]
                idx = self.ev(n.slice)
                return form.subst({ivar: idx})
        return super().subscript(n)

    def alias(self, base):
        seen = set()
        while base in self.alias_map and base not in seen:
            seen.add(base)
            base = self.alias_map[base]
        return base

    def call(self, n):
        f = dotted(n.func)
        if f == 'erf' and len(n.args) == 1:
            return L('erf(%s)' % self.ev(n.args[0]).key())
        if f in ('np.zeros', 'numpy.zeros'):
            return L('zeros@%d' % n.lineno)
        return super().call(n)


def _r5(run, prog, classes):
    run.describe('C18-R5', 'binned spectrum: delta, bin centres, bin power, Gaussian bin density from erf differences')
    ci = classes['LaserSpectrum']
    fn = ci.methods.get('_update_cache')
    if fn is None:
        raise AnalysisError('anchored method vanished: LaserSpectrum._update_cache')
    K = ci.mod.name + '|LaserSpectrum|_update_cache|'
    from ..inline import flatten, class_lookup, inline_trivial_properties
    # parts of the builder moved into private methods are read where they are called; reads through plain properties read the field
    fn = flatten(fn, class_lookup(prog, ci), keep=('_get_bin_power_spectral_density', 'evaluate', '_update_cache'))
    ev = SpecEval()
    mn, mx, bins = L('self._min_wavelength'), L('self._max_wavelength'), L('self._bins')
    delta = (mx - mn) / bins
    edges = []

    # interpret statements in order, remembering element forms of arrays written in loops
    def walk(stmts, loopvar=None):
        for st in stmts:
            if isinstance(st, ast.For):
                lv = st.target.id if isinstance(st.target, ast.Name) else None
                walk(st.body, lv)
                continue
            if isinstance(st, ast.Assign) and isinstance(st.targets[0], ast.Subscript) and loopvar:
                base = ev.alias(dotted(st.targets[0].value) or norm(st.targets[0].value))
                if norm(st.targets[0].slice) == loopvar:
                    val = ev.ev(st.value)
                    ev.elem[base] = (loopvar, val)
                    edges.append((base, val, st))
                    continue
            if isinstance(st, ast.Assign) and isinstance(st.targets[0], ast.Attribute) and isinstance(st.value, ast.Attribute) \
                    and dotted(st.value) and dotted(st.value).startswith('self.') and norm(st.targets[0]).endswith('_mv'):
                ev.alias_map[dotted(st.targets[0])] = dotted(st.value)
                continue
            if isinstance(st, ast.Assign) and isinstance(st.targets[0], (ast.Name, ast.Attribute)):
                key = dotted(st.targets[0])
                val = ev.ev(st.value)
                # loop-carried edge: wvl_lower = wvl_upper inside the loop is the recurrence, keep the symbolic start
                if loopvar and key in ev.env and isinstance(st.value, ast.Name) and st.value.id in ev.env and key != st.value.id:
                    edges.append(('recurrence:' + key, val, st))
                    continue
                ev.env[key] = val
    walk(fn.body)
    # every bin gets its density from the bin integral: a value written into the density / power arrays outside the loop over the bins
    # (a special-cased bin count) bypasses it
    in_loops = {id(x) for lp_ in ast.walk(fn) if isinstance(lp_, ast.For) for x in ast.walk(lp_)}
    for st_ in ast.walk(fn):
        if isinstance(st_, ast.Assign) and isinstance(st_.targets[0], ast.Subscript) and id(st_) not in in_loops:
            base_ = ev.alias(dotted(st_.targets[0].value) or norm(st_.targets[0].value))
            if base_ in ('self._power_spectral_density', 'self._power') and not (
                    isinstance(st_.targets[0].slice, ast.Slice) and norm(st_.value) in ('0', '0.0')):
                cond_ = [norm(i_.test) for i_ in ast.walk(fn) if isinstance(i_, ast.If) and any(y is st_ for y in ast.walk(i_))]
                run.subject('C18-R5')
                run.fail('C18-R5', K + 'special-case', ci.mod.relpath, st_.lineno,
                         '_update_cache writes %s = %s%s without evaluating the bin integral: for that case the power in the bin is not the '
                         'integral of the spectrum over the bin (a one-bin Gaussian whose range does not span the line holds less than the '
                         'whole power)' % (norm(st_.targets[0]), norm(st_.value)[:40], ' when ' + cond_[0] if cond_ else ''))
    d = ev.env.get('self._delta_wavelength')
    run.subject('C18-R5')
    if d is not None and d.eq(delta):
        run.ok('C18-R5', 'delta', '(max - min) / bins')
    else:
        run.fail('C18-R5', K + 'delta', ci.mod.relpath, fn.lineno, 'bin width is %s, expected (max - min) / bins' % d)
    stores = {b: (v, st) for b, v, st in edges if not b.startswith('recurrence:')}
    run.subject('C18-R5')
    w = stores.get('self._wavelengths')
    lv = ev.elem.get('self._wavelengths', (None, None))[0]
    if w is not None and lv and w[0].eq(mn + (L(lv) + C(Fraction(1, 2))) * delta):
        run.ok('C18-R5', 'bin centres', 'min + (i + 1/2) * delta')
    else:
        run.fail('C18-R5', K + 'centres', ci.mod.relpath, fn.lineno, 'bin centre is %s, expected min + (i + 1/2) * delta' % (w[0] if w else None))
    run.subject('C18-R5')
    p = stores.get('self._power')
    psd = stores.get('self._power_spectral_density')
    if p is not None and psd is not None and p[0].eq(psd[0] * delta):
        run.ok('C18-R5', 'bin power', 'density * delta')
    else:
        run.fail('C18-R5', K + 'power', ci.mod.relpath, fn.lineno, 'bin power is %s, expected bin density * delta' % (p[0] if p else None))
    # the density of bin i is evaluated over [lower, lower + delta], lower starting at min and advanced by delta
    run.subject('C18-R5')
    call = None
    for n in ast.walk(fn):
        if isinstance(n, ast.Call) and self_chain(n.func) == '_get_bin_power_spectral_density':
            call = n
    # the local holding the lower edge is whatever is passed first to the density (any name, also after helper expansion)
    lname = call.args[0].id if call is not None and call.args and isinstance(call.args[0], ast.Name) else 'wvl_lower'
    lower0 = ev.env.get(lname)
    rec = [e for e in edges if e[0] == 'recurrence:' + lname] or [e for e in edges if e[0].startswith('recurrence:')]
    ok = False
    if call is not None and lower0 is not None and len(call.args) == 2:
        a0, a1 = ev.ev(call.args[0]), ev.ev(call.args[1])
        if lower0.eq(mn) and a0.eq(lower0) and a1.eq(lower0 + delta) and rec and rec[0][1].eq(lower0 + delta):
            ok = True
    if ok:
        run.ok('C18-R5', 'bin edges', 'lower starts at min, upper = lower + delta, lower := upper')
    else:
        run.fail('C18-R5', K + 'edges', ci.mod.relpath, fn.lineno,
                 'bin densities are not evaluated over consecutive edges [min + i delta, min + (i + 1) delta]: start %s, recurrence %s'
                 % (lower0, rec[0][1] if rec else None))
    # Gaussian bin density
    g = classes['GaussianSpectrum']
    gf = g.methods.get('_get_bin_power_spectral_density')
    if gf is None:
        raise AnalysisError('anchored method vanished: GaussianSpectrum._get_bin_power_spectral_density')
    gf = flatten(gf, class_lookup(prog, g), keep=('evaluate',))
    from ..inline import propagate as _propagate
    try:
        gf = _propagate(gf)
    except Exception:
        pass
    ge = SpecEval()
    lo, up = [a.arg for a in gf.args.args[1:3]]
    rec2 = []
    run_block(ge, gf.body, rec2)
    ret = [r for r in ast.walk(gf) if isinstance(r, ast.Return)]
    got = ge.ev(ret[0].value)
    A = lambda w: 'erf(%s)' % ((L(w) - L('self._mean')) * L('self._norm_cdf')).key()
    want = C(Fraction(1, 2)) * (L(A(up)) - L(A(lo))) / L('self._delta_wavelength')
    run.subject('C18-R5')
    if got.eq(want):
        run.ok('C18-R5', 'Gaussian bin density', '(erf(B(upper)) - erf(B(lower))) / (2 delta), B(w) = (w - mean) * norm_cdf')
    else:
        run.fail('C18-R5', g.mod.name + '|GaussianSpectrum|_get_bin_power_spectral_density|form', g.mod.relpath, gf.lineno,
                 'Gaussian bin density is %s; expected %s' % (got, want))
    sc, st = prog.find_setter(g, 'stddev')
    se = SymEval()
    rec3 = []
    run_block(se, st.body, rec3)
    val = st.args.args[1].arg
    run.subject('C18-R5')
    nc = se.env.get('self._norm_cdf')
    nn = se.env.get('self._normalisation')
    sq2 = L('M_SQRT2')
    ok1 = nc is not None and (nc.eq(C(1) / (L(val) * sq2)) or se.reduce_sqrt(nc * se.sqrt(C(2))).eq(C(1) / L(val)))
    ok2 = nn is not None and se.reduce_sqrt(nn * se.sqrt(C(2) * L('M_PI'))).eq(C(1) / L(val))
    if ok1 and ok2:
        run.ok('C18-R5', 'Gaussian scalings', 'norm_cdf = 1/(sigma sqrt2), normalisation = 1/(sigma sqrt(2 pi))')
    else:
        run.fail('C18-R5', g.mod.name + '|GaussianSpectrum|setter:stddev|scalings', g.mod.relpath, st.lineno,
                 'stddev setter: norm_cdf = %s, normalisation = %s' % (nc, nn))
    run.floor('C18-R5', 6)


_PR = 'cherab/core/model/laser/profile.pyx'
_LS = 'cherab/core/laser/laserspectrum.pyx'
_GS = 'cherab/core/model/laser/laserspectrum.pyx'
MUTANTS = [
    dict(name='pulse-length-unchanged-shortcut-meets-the-preset', file='cherab/core/model/laser/profile.pyx',
         find="        self._pulse_length = value\n        self._stddev_z = self._pulse_length * SPEED_OF_LIGHT\n",
         replace="        if value == self._pulse_length:\n            return\n        self._pulse_length = value\n        self._stddev_z = self._pulse_length * SPEED_OF_LIGHT\n", expect='C18-R1'),
    dict(name='segment-offsets-from-float-arange', file=_PR if False else 'cherab/core/model/laser/profile.pyx',
         find="        for i in range(n_segments):\n            segment = Cylinder(name=\"Laser segment {0:d}\".format(i), radius=radius, height=segment_length,\n                                transform=translate(0, 0, i * segment_length))",
         replace="        for i, z_start in enumerate(np.arange(0, length, segment_length)):\n            segment = Cylinder(name=\"Laser segment {0:d}\".format(i), radius=radius, height=segment_length,\n                                transform=translate(0, 0, z_start))", expect='C18-R3'),
    dict(name='old-segments-detached-over-children', file='cherab/core/laser/node.pyx', find="        for i in self._geometry:\n            i.parent = None", replace="        for i in self.children:\n            i.parent = None", expect='C18-R6'),
    dict(name='beam-cut-off-at-waist-width', file='cherab/core/model/laser/math_functions.pyx', find="        stddev_z2 = self._stddev_waist2 * (1 + ((z_prime) / self._rayleigh_range) ** 2)\n",
         replace="        if r2 > 36 * self._stddev_waist2:\n            return 0\n        stddev_z2 = self._stddev_waist2 * (1 + ((z_prime) / self._rayleigh_range) ** 2)\n", expect='C18-R6'),
    dict(name='beam-prefactor-waist-width', file='cherab/core/model/laser/math_functions.pyx', find="        return 1 / (2 * pi * stddev_z2) * exp(r2 / (-2 * stddev_z2))",
         replace="        return 1 / (2 * pi * self._stddev_waist2) * exp(r2 / (-2 * stddev_z2))", expect='C18-R6'),
    dict(name='setter-notifies-instead-of-rebuilding', file=_PR, find="        self._stddev_waist = value\n        self._function_changed()", replace="        self._stddev_waist = value\n        self.notifier.notify()", expect='C18-R1'),
    dict(name='geometry-setter-silent', file=_PR, find="class UniformEnergyDensity(LaserProfile):", replace="class UniformEnergyDensity(LaserProfile):  # mutated", expect=None),
    dict(name='missing-speed-of-light', file=_PR, find="        length = SPEED_OF_LIGHT * self._pulse_length  # convert from temporal to spatial length of pulse\n        normalisation = self._pulse_energy / length   # normalisation",
         replace="        length = self._pulse_length  # convert from temporal to spatial length of pulse\n        normalisation = self._pulse_energy / length   # normalisation", expect='C18-R2'),
    dict(name='segment-origin-off-by-one', file=_PR, find="transform=translate(0, 0, i * segment_length)", replace="transform=translate(0, 0, (i + 1) * segment_length)", expect='C18-R3'),
    dict(name='D6-reintroduced', file=_LS, find="    cpdef double get_max_wavelenth(self):\n        return self._max_wavelength", replace="    cpdef double get_max_wavelenth(self):\n        return self._min_wavelength", expect='C18-R4'),
    dict(name='bin-centre-without-half', file=_LS, find="self._wavelengths[index] = self._min_wavelength + (0.5 + index) * self._delta_wavelength", replace="self._wavelengths[index] = self._min_wavelength + index * self._delta_wavelength", expect='C18-R5'),
    dict(name='D5-reintroduced', file=_GS, find="        self._mean = value\n\n        # refresh the binned spectrum (the bins are not set yet while the object is being constructed)\n        if self._bins > 0:\n            self._update_cache()\n", replace="        self._mean = value\n", expect='C18-R1'),
    dict(name='D4-reintroduced', file=_PR, find="        self._pulse_energy = value\n        self._function_changed()\n\n    @property\n    def pulse_length(self):\n        return self._pulse_length\n\n    @pulse_length.setter\n    def pulse_length(self, double value):\n        if value <= 0:\n            raise ValueError(\"Value has to be larger than 0.\")\n\n        self._pulse_length = value\n        self._function_changed()\n\n    @property\n    def stddev_x(self):",
         replace="        self._pulse_energy = value\n        self.notifier.notify()\n\n    @property\n    def pulse_length(self):\n        return self._pulse_length\n\n    @pulse_length.setter\n    def pulse_length(self, double value):\n        if value <= 0:\n            raise ValueError(\"Value has to be larger than 0.\")\n\n        self._pulse_length = value\n        self._function_changed()\n\n    @property\n    def stddev_x(self):", expect='C18-R1'),
    dict(name='gaussian-bin-density-missing-half', file=_GS, find="return 0.5 * (val_upper - val_lower) / self._delta_wavelength", replace="return (val_upper - val_lower) / self._delta_wavelength", expect='C18-R5'),
    dict(name='bin-power-not-scaled', file=_LS, find="self.power_mv[index] = self.power_spectral_density_mv[index] * self._delta_wavelength", replace="self.power_mv[index] = self.power_spectral_density_mv[index]", expect='C18-R5'),
    dict(name='single-cylinder-half-length', file=_PR, find="radius=radius, height=length)", replace="radius=radius, height=length / 2)", expect='C18-R3'),
]
MUTANTS = [m for m in MUTANTS if m.get('expect')]
TWINS = [
    dict(name='centre-reordered', file=_LS, find="self._wavelengths[index] = self._min_wavelength + (0.5 + index) * self._delta_wavelength", replace="self._wavelengths[index] = (index + 0.5) * self._delta_wavelength + self._min_wavelength"),
]
