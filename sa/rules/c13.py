"""C13 -- function wrappers and samplers (DESIGN section 5, C13)."""
import ast
from fractions import Fraction

from ..program import Program, dotted, norm
from ..report import AnalysisError
from ..flow import guards_of, facts, stores
from ..algebra import SymEval, C, L, Rat, run_block

M = 'cherab/core/math/'
FILES = [M + 'mappers.pyx', M + 'clamp.pyx', M + 'slice.pyx', M + 'mask.pyx', M + 'transform/periodic.pyx',
         M + 'transform/cylindrical.pyx', M + 'samplers.pyx']
PXD = M + 'transform/periodic.pxd'

R = 'sqrt(x*x + y*y)'
PHI = 'atan2(y, x)'
DEG = '(atan2(y, x) * 180 / M_PI)'
# class -> list of (guard text or None, expected expression in canonical spelling)
#   F(...)  : the wrapped function evaluated once          G(...) : the outer 1D function of the iso-mappers
#   @name   : the constructor parameter a field was initialised from
EXPECT = {
    'IsoMapper2D': [(None, 'G(F(x, y))')],
    'IsoMapper3D': [(None, 'G(F(x, y, z))')],
    'Swizzle2D': [(None, 'F(y, x)')],
    'AxisymmetricMapper': [(None, 'F(%s, z)' % R)],
    'VectorAxisymmetricMapper': [(None, 'ROT(F(%s, z), %s)' % (R, DEG))],
    'ClampOutput1D': [(None, 'clamp(F(x), @min, @max)')],
    'ClampOutput2D': [(None, 'clamp(F(x, y), @min, @max)')],
    'ClampOutput3D': [(None, 'clamp(F(x, y, z), @min, @max)')],
    'ClampInput1D': [(None, 'F(clamp(x, @xmin, @xmax))')],
    'ClampInput2D': [(None, 'F(clamp(x, @xmin, @xmax), clamp(y, @ymin, @ymax))')],
    'ClampInput3D': [(None, 'F(clamp(x, @xmin, @xmax), clamp(y, @ymin, @ymax), clamp(z, @zmin, @zmax))')],
    'Slice2D': [('axis == 0', 'F(@value, x)'), ('axis != 0', 'F(x, @value)')],
    'Slice3D': [('axis == 0', 'F(@value, x, y)'), ('axis == 1', 'F(x, @value, y)'), ('axis != 1', 'F(x, y, @value)')],
    'CylindricalTransform': [(None, 'F(%s, %s, z)' % (R, PHI))],
    'VectorCylindricalTransform': [(None, 'ROT(F(%s, %s, z), %s)' % (R, PHI, DEG))],
    'PeriodicTransform1D': [(None, 'F(remainder(x, @period))')],
    'PeriodicTransform2D': [(None, 'F(remainder(x, @period_x), remainder(y, @period_y))')],
    'PeriodicTransform3D': [(None, 'F(remainder(x, @period_x), remainder(y, @period_y), remainder(z, @period_z))')],
    'VectorPeriodicTransform1D': [(None, 'F(remainder(x, @period))')],
    'VectorPeriodicTransform2D': [(None, 'F(remainder(x, @period_x), remainder(y, @period_y))')],
    'VectorPeriodicTransform3D': [(None, 'F(remainder(x, @period_x), remainder(y, @period_y), remainder(z, @period_z))')],
    'PolygonMask2D': [(None, 'F(x, y)')],
}


class WrapEval(SymEval):
    """Canonical spelling: wrapped-function calls -> F/G, fields -> @constructor-parameter."""

    def __init__(self, origin, funcs):
        super().__init__()
        self.origin = origin      # field -> ctor parameter
        self.funcs = funcs        # field -> 'F' | 'G'

    def attribute(self, n):
        d = dotted(n)
        if isinstance(n.value, ast.Name) and n.value.id in self.env and n.attr in ('x', 'y', 'z'):
            return L('%s.%s' % (self.env[n.value.id].key(), n.attr))      # component of a local vector
        if d and d.startswith('self.') and d.count('.') == 1:
            f = d[5:]
            if d in self.env:
                return self.env[d]
            if f in self.origin:
                return L('@' + self.origin[f])
        return super().attribute(n)

    def name(self, n):
        if n.id.startswith('AT_'):
            return L('@' + n.id[3:])
        return super().name(n)

    def call(self, n):
        f = n.func
        if isinstance(f, ast.Attribute) and f.attr == 'evaluate':
            recv = dotted(f.value)
            if recv and recv.startswith('self.'):
                tag = self.funcs.get(recv[5:], 'F')
                return L('%s(%s)' % (tag, ', '.join(self.ev(a).key() for a in n.args)))
        if isinstance(f, ast.Attribute) and f.attr == 'transform' and len(n.args) == 1:
            a = n.args[0]
            if isinstance(a, ast.Call) and dotted(a.func) == 'rotate_z' and len(a.args) == 1:
                return L('ROT(%s, %s)' % (self.ev(f.value).key(), self.ev(a.args[0]).key()))
        d = dotted(f)
        if d in ('F', 'G'):
            return L('%s(%s)' % (d, ', '.join(self.ev(a).key() for a in n.args)))
        if d == 'ROT':
            return L('ROT(%s, %s)' % (self.ev(n.args[0]).key(), self.ev(n.args[1]).key()))
        return super().call(n)


def _origins(ci):
    """field -> constructor parameter it is initialised from (directly or through an autowrap/validation call)."""
    init = ci.methods.get('__init__')
    out, funcs = {}, {}
    if init is None:
        return out, funcs
    params = [a.arg for a in init.args.args[1:]]
    for st in ast.walk(init):
        if isinstance(st, ast.Assign) and len(st.targets) == 1:
            t = dotted(st.targets[0])
            if t and t.startswith('self.') and t.count('.') == 1:
                v = st.value
                wrapped = False
                if isinstance(v, ast.Call) and len(v.args) >= 1 and isinstance(v.args[0], ast.Name) and (dotted(v.func) or '').startswith('autowrap'):
                    v = v.args[0]
                    wrapped = True
                if isinstance(v, ast.Name) and v.id in params:
                    out[t[5:]] = v.id
                    if wrapped:
                        funcs[t[5:]] = v.id
    return out, funcs


def check(run):
    prog = Program()
    prog.load_many(FILES)
    for f in FILES + [PXD]:
        run.use_file(f)
    run.explanation = (
        'Decides structural necessary conditions of C13: (R1) an interval analysis with outward (IEEE) rounding of the inline '
        'remainder(x, period) shows every non-degenerate return value lies in [0, period) -- the negative arm fmod + period is '
        'closed at period after rounding unless a later guard excludes it; (R2) for each of the 22 tabulated wrapper classes '
        'the value returned by evaluate, in exact normal form with fields traced to the constructor parameter they were '
        'initialised from, is the wrapped function evaluated exactly once at the documented mapped argument on every branch '
        '(iso-mapping, swizzles, slices, axisymmetric/cylindrical maps with rotation by the toroidal angle in degrees, input / '
        'output clamps, periodic reduction of each coordinate by its own period); Swizzle3D is decided by finite evaluation of its '
        'shape selector; (R3) in all 14 samplers the k-th index of the output store is the loop variable indexing the k-th '
        'coordinate array passed as k-th argument, loops run over the full sample counts, range samplers use linspace(min, max, n) '
        'with both end points, point samplers read column k for coordinate k. Does not decide point-in-polygon (triangulation) '
        'or behaviour for huge/subnormal arguments other than the periodic range.')
    run.assumptions = ['fmod(x, p) has the sign of x and |fmod| < p', 'raysect clamp(v, lo, hi) clamps v into [lo, hi]',
                       'numpy.linspace includes both end points by default']
    # shape normalisation: private helpers expanded in place (extract-helper refactorings do not change what is decided)
    for c in list(prog.classes.values()):
        if c.name in EXPECT or c.name == 'Swizzle3D':
            prog.normalise_class(c, propagate=False)
    prog.normalise_module(prog.modules['cherab.core.math.samplers'], propagate=False)
    _r1(run, prog)
    _r2(run, prog)
    _r3(run, prog)
    _r4(run, prog)
    from ..cachekey import check_caches
    check_caches(run, [m for k, m in prog.modules.items() if k.startswith('cherab.core.math') and not k.endswith('#pxd')], 'C13-K', prog=prog, zero_is_a_value=True)


# ------------------------------------------------------------------------------------------ R4
def _r4(run, prog):
    """The polygon mask is the mesh of the triangulation of the given vertices, for every polygon: the triangles handed to the
    mesh have no other source than triangulate2d(vertices), and the mesh gets the same vertices, value 1 inside, 0 outside."""
    from ..inline import prep, class_lookup
    run.describe('C13-R4', 'PolygonMask2D: the mesh is built from triangulate2d(vertices) for every polygon; 1 inside, 0 (default) outside')
    ci = [c for c in prog.classes.values() if c.name == 'PolygonMask2D']
    if not ci:
        raise AnalysisError('anchored class vanished: PolygonMask2D')
    ci = ci[0]
    init0 = ci.methods.get('__init__')
    if init0 is None:
        raise AnalysisError('anchored method vanished: PolygonMask2D.__init__')
    init = prep(init0, class_lookup(prog, ci))
    K = '%s|PolygonMask2D|__init__|' % ci.mod.name
    run.subject('C13-R4')
    mesh = [c for c in ast.walk(init) if isinstance(c, ast.Call) and dotted(c.func) == 'Discrete2DMesh']
    if len(mesh) != 1 or len(mesh[0].args) < 3:
        run.undecided('C13-R4', 'PolygonMask2D mesh', 'Discrete2DMesh construction not recognised')
        return
    m = mesh[0]
    tri = m.args[1]
    # every definition that can reach the triangles argument
    srcs = []
    if isinstance(tri, ast.Name):
        srcs = [v for t, v, st in stores(init) if isinstance(t, ast.Name) and t.id == tri.id]
    else:
        srcs = [tri]
    vtx = norm(m.args[0])
    bad = [v for v in srcs if not (isinstance(v, ast.Call) and dotted(v.func) == 'triangulate2d' and len(v.args) == 1 and norm(v.args[0]) == vtx)]
    if not srcs:
        run.undecided('C13-R4', 'PolygonMask2D triangles', 'source of the triangles not found')
    elif bad:
        run.fail('C13-R4', K + 'triangles-source', ci.mod.relpath, getattr(bad[0], 'lineno', init0.lineno),
                 'PolygonMask2D takes its triangles from %s for some polygons instead of triangulate2d(%s): a fixed split is wrong for concave polygons, '
                 'the mask is then 1 outside the polygon' % (norm(bad[0])[:80], vtx))
    else:
        run.ok('C13-R4', 'PolygonMask2D triangles', 'triangulate2d(%s) is the only source' % vtx)
    # the polygon that is triangulated is the polygon that was given: the vertex array is only converted, never sliced or filtered
    run.subject('C13-R4')
    pv = init0.args.args[1].arg if len(init0.args.args) > 1 else None
    vname = m.args[0].id if isinstance(m.args[0], ast.Name) else None
    vdefs = [v for t, v, st in stores(init) if isinstance(t, ast.Name) and t.id == vname] if vname else []
    conv = ('np.array', 'np.asarray', 'np.ascontiguousarray', 'numpy.array', 'np.float64')
    cut = [v for v in vdefs if not (isinstance(v, ast.Call) and dotted(v.func) in conv and v.args and norm(v.args[0]) in (pv, vname))]
    dropped = [v for v in cut if isinstance(v, ast.Subscript) or (isinstance(v, ast.Call) and dotted(v.func) in ('np.delete', 'np.unique', 'np.compress'))]
    if dropped:
        run.fail('C13-R4', K + 'vertices-dropped', ci.mod.relpath, getattr(dropped[0], 'lineno', init0.lineno),
                 'PolygonMask2D replaces the vertex array by %s for some polygons: a vertex of the polygon that was given is removed, so the mask is not '
                 'the point-in-polygon test of that polygon' % norm(dropped[0])[:60])
    elif cut:
        run.undecided('C13-R4', 'PolygonMask2D vertices', 'vertex array redefined as %s' % norm(cut[0])[:50])
    else:
        run.ok('C13-R4', 'PolygonMask2D vertices', 'the given vertices, converted to an array only', sample=False)
    run.subject('C13-R4')
    kws = {k.arg: norm(k.value) for k in m.keywords}
    data = m.args[2]
    dsrc = [v for t, v, st in stores(init) if isinstance(t, ast.Name) and isinstance(data, ast.Name) and t.id == data.id] or [data]
    ones = all(isinstance(v, ast.Call) and dotted(v.func) in ('np.ones', 'numpy.ones', 'ones') for v in dsrc)
    if ones and kws.get('default_value') in ('0.0', '0') and kws.get('limit') == 'False':
        run.ok('C13-R4', 'PolygonMask2D values', '1 on every triangle, default 0 outside')
    elif not ones or kws.get('default_value') not in ('0.0', '0', None):
        run.fail('C13-R4', K + 'values', ci.mod.relpath, m.lineno, 'PolygonMask2D mesh values %s, default %s; documented: 1 inside, 0 outside' % (
            [norm(v)[:40] for v in dsrc], kws.get('default_value')))
    else:
        run.undecided('C13-R4', 'PolygonMask2D values', 'mesh keywords %s' % kws)


# ------------------------------------------------------------------------------------------ R1
class Iv:
    """Interval in units of the period p > 0: (lo, hi) with closedness flags."""

    def __init__(self, lo, hi, lc, hc):
        # a very large finite bound stands for 'unbounded' (every comparison of the analysed code is with 0 or one period)
        self.lo, self.hi, self.lc, self.hc = Fraction(lo), Fraction(hi), lc, hc

    def __repr__(self):
        return '%s%s, %s%s' % ('[' if self.lc else '(', self.lo, self.hi, ']' if self.hc else ')')


def _r1(run, prog):
    run.describe('C13-R1', 'remainder(x, p): every return value for p > 0 lies in [0, p) under IEEE rounding')
    pm = prog.modules.get('cherab.core.math.transform.periodic#pxd')
    if pm is None or 'remainder' not in pm.functions:
        raise AnalysisError('anchored function vanished: remainder in periodic.pxd')
    fn = pm.functions['remainder']
    x, p = [a.arg for a in fn.args.args[:2]]
    K = 'cherab.core.math.transform.periodic|remainder|'
    results = []      # (interval, node)
    undec = []
    imprecise = set()

    def ev(e, env):
        """Abstract value of expression: Iv, ('p',) for the period, a number, or None."""
        if isinstance(e, ast.Name):
            if e.id == p:
                return 'p'
            return env.get(e.id)
        if isinstance(e, ast.Constant) and isinstance(e.value, (int, float)):
            return Iv(e.value, e.value, True, True) if e.value == 0 else None
        if isinstance(e, ast.Call) and dotted(e.func) in ('fmod', 'libc.math.fmod') and len(e.args) == 2 and norm(e.args[1]) == p:
            return Iv(-1, 1, False, False)
        if isinstance(e, ast.BinOp) and isinstance(e.op, ast.Sub) and norm(e.left) == x and norm(e.right).replace(' ', '') in (
                '%s*floor(%s/%s)' % (p, x, p), 'floor(%s/%s)*%s' % (x, p, p)):
            # x - p*floor(x/p): exactly in [0, p), but the subtraction rounds: for a tiny negative x the result is p itself
            return Iv(0, 1, True, True)
        if isinstance(e, ast.BinOp) and isinstance(e.op, ast.Add):
            a, b = ev(e.left, env), ev(e.right, env)
            if a == 'p' and isinstance(b, Iv):
                a, b = b, a
            if isinstance(a, Iv) and b == 'p':
                # exact range shifted by one period, then rounded to nearest: both ends become attainable
                return Iv(a.lo + 1, a.hi + 1, True, True)
            return None
        if isinstance(e, ast.IfExp):
            t = refine(e.test, env)
            if t is None:
                return None
            et, ef = t
            return ('either', ev(e.body, et), ev(e.orelse, ef))
        return None

    DEAD = {'__dead__': True}

    def refine(test, env):
        """Split env on a comparison of a tracked variable with 0 or p. Returns (env_true, env_false) or None."""
        if env.get('__dead__'):
            return env, env
        # the claim is for a positive period: 'p == 0' / 'p <= 0' never holds
        if norm(test) in ('%s == 0' % p, '%s == 0.0' % p, '%s <= 0' % p, '0 == %s' % p, 'not %s' % p):
            return DEAD, env
        if norm(test) in ('%s != 0' % p, '%s > 0' % p, '%s != 0.0' % p, '%s' % p):
            return env, DEAD
        if isinstance(test, ast.Compare) and len(test.ops) > 1:
            # a chained comparison is the conjunction of its links
            parts, left = [], test.left
            for op_, right in zip(test.ops, test.comparators):
                parts.append(ast.Compare(left=left, ops=[op_], comparators=[right]))
                left = right
            return refine(ast.BoolOp(op=ast.And(), values=parts), env)
        if isinstance(test, ast.UnaryOp) and isinstance(test.op, ast.Not):
            r_ = refine(test.operand, env)
            return (r_[1], r_[0]) if r_ is not None else None
        if isinstance(test, ast.BoolOp):
            # or: true side = hull of the disjuncts' true sides, false side = all disjuncts false in turn (and dually for and)
            is_or = isinstance(test.op, ast.Or)
            seq, hull_envs = dict(env), []
            for v_ in test.values:
                r_ = refine(v_, seq)
                if r_ is None:
                    return None
                one, other = (r_[0], r_[1]) if is_or else (r_[1], r_[0])
                hull_envs.append(one)
                seq = other
            hull_envs = [h_ for h_ in hull_envs if not h_.get('__dead__')] or [DEAD]
            hull = dict(hull_envs[0])
            for e_ in hull_envs[1:]:
                for k_ in set(hull) | set(e_):
                    va, vb = hull.get(k_), e_.get(k_)
                    if isinstance(va, Iv) and isinstance(vb, Iv):
                        lo, hi = min(va.lo, vb.lo), max(va.hi, vb.hi)
                        lc = (va.lc if va.lo == lo else False) or (vb.lc if vb.lo == lo else False)
                        hc = (va.hc if va.hi == hi else False) or (vb.hc if vb.hi == hi else False)
                        hull[k_] = Iv(lo, hi, lc, hc)
                    elif va is not vb:
                        hull[k_] = None
            return (hull, seq) if is_or else (seq, hull)
        if isinstance(test, ast.Compare) and len(test.ops) == 1 and isinstance(test.comparators[0], ast.Name) and not isinstance(test.left, ast.Name):
            # constant on the left: 0 > v  ==  v < 0
            flip = {ast.Lt: ast.Gt, ast.Gt: ast.Lt, ast.LtE: ast.GtE, ast.GtE: ast.LtE}
            if type(test.ops[0]) in flip:
                return refine(ast.Compare(left=test.comparators[0], ops=[flip[type(test.ops[0])]()], comparators=[test.left]), env)
        if isinstance(test, ast.Compare) and len(test.ops) == 1 and isinstance(test.left, ast.Name) and test.left.id in env \
                and isinstance(env[test.left.id], Iv):
            v = env[test.left.id]
            rhs = test.comparators[0]
            bound = Fraction(0) if norm(rhs) in ('0', '0.0') else (Fraction(1) if norm(rhs) == p else None)
            if bound is None:
                return None
            op = type(test.ops[0])
            lt = Iv(v.lo, min(v.hi, bound), v.lc, False if bound <= v.hi else v.hc)     # v <  bound
            ge = Iv(max(v.lo, bound), v.hi, True if bound >= v.lo else v.lc, v.hc)     # v >= bound
            le = Iv(v.lo, min(v.hi, bound), v.lc, True if bound <= v.hi else v.hc)     # v <= bound
            gt = Iv(max(v.lo, bound), v.hi, False if bound >= v.lo else v.lc, v.hc)    # v >  bound
            m = {ast.Lt: (lt, ge), ast.GtE: (ge, lt), ast.LtE: (le, gt), ast.Gt: (gt, le)}
            if op in m:
                a, b = m[op]
                et, ef = dict(env), dict(env)
                et[test.left.id], ef[test.left.id] = a, b
                return et, ef
        return None

    def emit(val, node):
        if isinstance(val, tuple) and val[0] == 'either':
            emit(val[1], node)
            emit(val[2], node)
        elif isinstance(val, Iv):
            results.append((val, node))
        else:
            undec.append(node)

    def block(stmts, env):
        """Returns env at fall-through or None if all paths returned."""
        if env.get('__dead__'):
            return None
        for st in stmts:
            if isinstance(st, ast.Return):
                if env.get('__imprecise__'):
                    imprecise.add(id(st))
                emit(ev(st.value, env), st)
                return None
            if isinstance(st, ast.Assign) and isinstance(st.targets[0], ast.Name):
                v = ev(st.value, env)
                if isinstance(v, tuple):
                    undec.append(st)
                    v = None
                env = dict(env)
                env[st.targets[0].id] = v
            elif isinstance(st, ast.AugAssign) and isinstance(st.target, ast.Name) and isinstance(st.op, ast.Add):
                v = ev(ast.BinOp(left=ast.Name(id=st.target.id, ctx=ast.Load()), op=ast.Add(), right=st.value), env)
                env = dict(env)
                env[st.target.id] = v
            elif isinstance(st, ast.If):
                # degenerate period: "if p == 0: return x" is outside the claim
                if norm(st.test) in ('%s == 0' % p, '%s == 0.0' % p, '%s <= 0' % p):
                    continue
                r = refine(st.test, env)
                if r is None:
                    # the test is not understood: what follows is analysed without its information, so a range that looks too wide
                    # there is undecided, not a violation
                    undec.append(st)
                    e2 = dict(env)
                    e2['__imprecise__'] = True
                    a = block(st.body, dict(e2))
                    b = block(st.orelse, dict(e2))
                else:
                    a = block(st.body, r[0])
                    b = block(st.orelse, r[1])
                if a is None and b is None:
                    return None
                if a is None:
                    env = b
                elif b is None:
                    env = a
                else:
                    # join: hull per variable
                    env = dict(a)
                    for k in set(a) | set(b):
                        va, vb = a.get(k), b.get(k)
                        if isinstance(va, Iv) and isinstance(vb, Iv):
                            lo = min(va.lo, vb.lo)
                            hi = max(va.hi, vb.hi)
                            lc = (va.lc if va.lo == lo else False) or (vb.lc if vb.lo == lo else False)
                            hc = (va.hc if va.hi == hi else False) or (vb.hc if vb.hi == hi else False)
                            env[k] = Iv(lo, hi, lc, hc)
                        elif va is not vb:
                            env[k] = None
            elif isinstance(st, (ast.AnnAssign, ast.Expr, ast.Pass)):
                continue
            else:
                undec.append(st)
        return env

    INF = 10 ** 30
    block(fn.body, {x: Iv(-INF, INF, False, False)})       # the argument is any real number (in units of the period)
    if not results:
        run.undecided('C13-R1', 'remainder', 'no return path could be interpreted')
    for iv, node in results:
        run.subject('C13-R1')
        inside = (iv.lo > 0 or (iv.lo == 0)) and (iv.hi < 1 or (iv.hi == 1 and not iv.hc))
        if inside:
            run.ok('C13-R1', 'return %s' % norm(node.value)[:40], 'value / period in %s' % iv)
        elif id(node) in imprecise:
            run.undecided('C13-R1', 'return %s' % norm(node.value)[:40], 'reached through a test that was not interpreted')
        else:
            run.fail('C13-R1', K + 'range|%s' % norm(node.value).replace(' ', '')[:40], PXD, node.lineno,
                     "remainder returns a value in %s periods on the path ending in 'return %s': the inner function can be evaluated outside "
                     "[0, period) -- at 'period' itself when the end point is attainable (an argument equal to the period passed through "
                     "unchanged, or fmod + period rounding up for a tiny negative argument)" % (iv, norm(node.value)[:30]))
    for n in undec:
        run.undecided('C13-R1', 'remainder', 'cannot interpret %s' % norm(n)[:60])
    run.floor('C13-R1', 1)


# ------------------------------------------------------------------------------------------ R2
def _r2(run, prog):
    run.describe('C13-R2', 'evaluate returns the wrapped function once at the documented mapped argument (normal forms, per branch)')
    classes = {c.name: c for c in prog.classes.values()}
    for cname, cases in sorted(EXPECT.items()):
        ci = classes.get(cname)
        if ci is None:
            raise AnalysisError('anchored class vanished: %s' % cname)
        evm = ci.methods.get('evaluate')
        if evm is None:
            raise AnalysisError('anchored method vanished: %s.evaluate' % cname)
        run.functions += 1
        origin, funcs = _origins(ci)
        tags = {}
        fparams = list(funcs.values())
        for fld, prm in funcs.items():
            tags[fld] = 'G' if (prm.endswith('1d') and len(funcs) > 1) else 'F'
        if cname == 'PolygonMask2D':
            tags = {'_mesh': 'F'}
        K = '%s|%s|evaluate|' % (ci.mod.name, cname)
        rets = [r for r in ast.walk(evm) if isinstance(r, ast.Return) and r.value is not None]
        got = []
        for r in rets:
            e = WrapEval(origin, tags)
            # straight-line assignments that precede the return on its path
            pre = _stmts_before(evm, r)
            run_block(e, pre)
            val = e.ev(r.value)
            f = facts(guards_of(evm, r) or [])
            got.append((val, f, r))
        for guard, exp in cases:
            run.subject('C13-R2')
            e = WrapEval({}, {})
            want = e.ev(ast.parse(exp.replace('@', 'AT_'), mode='eval').body)
            cands = got
            if guard:
                gl, gop, gr = guard.split(' ')
                cands = [g for g in got if ('@' + gl, gop, gr) in {(_canon_field(a[0], origin), a[1], a[2]) for a in g[1]}]
            if not cands:
                run.fail('C13-R2', K + (guard or 'all').replace(' ', ''), ci.mod.relpath, evm.lineno,
                         '%s.evaluate has no return path for the case %s' % (cname, guard or 'any'))
                continue
            bad = [c for c in cands if not c[0].eq(want)]
            if bad and want.key().startswith('ROT('):
                verdicts = [_hand_rotation(c, want, evm, origin, tags) for c in bad]
                if all(v is True for v in verdicts):
                    bad = []
                else:
                    msgs = [v for v in verdicts if isinstance(v, str)]
                    if msgs:
                        run.fail('C13-R2', K + 'rotation', ci.mod.relpath, bad[0][2].lineno, '%s.evaluate: %s' % (cname, msgs[0]))
                        continue
            if not bad:
                run.ok('C13-R2', '%s%s' % (cname, ' [%s]' % guard if guard else ''), want.key())
            else:
                run.fail('C13-R2', K + (guard or 'all').replace(' ', ''), ci.mod.relpath, bad[0][2].lineno,
                         '%s.evaluate%s returns %s; documented mapping: %s' % (cname, ' for ' + guard if guard else '', bad[0][0].key(), want.key()))
        # every return path is covered by a case and the wrapped function is evaluated exactly once per path
        for val, f, r in got:
            run.subject('C13-R2')
            import re as _re
            n = len({_fleaf(l) for l in val.leaves() if 'F(' in l} - {None}) if val.leaves() else 0
            if n == 0:
                n = sum(k.count('F(') for k in [val.key()])
            if n == 1:
                run.ok('C13-R2', '%s single evaluation' % cname, val.key(), sample=False)
            else:
                run.fail('C13-R2', K + 'evaluations', ci.mod.relpath, r.lineno,
                         '%s.evaluate evaluates the wrapped function %d times on one path: %s' % (cname, n, val.key()))
    # Swizzle3D: finite evaluation of the selector
    ci = classes.get('Swizzle3D')
    if ci is None:
        raise AnalysisError('anchored class vanished: Swizzle3D')
    evm = ci.methods['evaluate']
    K = '%s|Swizzle3D|evaluate|' % ci.mod.name
    params = [a.arg for a in evm.args.args[1:4]]
    run.subject('C13-R2')
    # finite evaluation: the body is interpreted for each of the 27 selectors (and an invalid one); the wrapped function must be called
    # with (x, y, z)[shape[0]], [shape[1]], [shape[2]]
    from ..pathinterp import PathInterp
    import itertools as _it
    helpers = {n: f for n, f in ci.mod.functions.items() if n.startswith('_')}
    helpers.update({'self.' + n: f for n, f in ci.methods.items() if n.startswith('_') and not n.startswith('__')})
    bad, und = None, None
    for shape in list(_it.product(range(3), repeat=3)) + [(3, 0, 0)]:
        class SE(SymEval):
            def __init__(self_):
                super().__init__()
                for k_, v_ in enumerate(shape):
                    self_.env['self.shape[%d]' % k_] = C(v_)

            def subscript(self_, n):
                r = super().subscript(n)          # an element stored earlier on this path (d[i] = x) is read back as its value
                return self_.env.get(r.key(), r)
        # fields the constructor derives from the selector (a cached flag or table) take the value they have for this selector
        derived = {}
        init_ = ci.methods.get('__init__')

        def conc(e):
            if isinstance(e, ast.Constant) and isinstance(e.value, (int, bool)):
                return e.value
            if isinstance(e, ast.Subscript) and norm(e.value) == 'self.shape' and isinstance(e.slice, ast.Constant) and e.slice.value in (0, 1, 2):
                return shape[e.slice.value]
            if isinstance(e, ast.Attribute) and norm(e) in derived:
                return derived[norm(e)]
            if isinstance(e, ast.Compare) and len(e.ops) == 1:
                a_, b_ = conc(e.left), conc(e.comparators[0])
                ops_ = {ast.Eq: lambda: a_ == b_, ast.NotEq: lambda: a_ != b_, ast.Lt: lambda: a_ < b_, ast.Gt: lambda: a_ > b_,
                        ast.LtE: lambda: a_ <= b_, ast.GtE: lambda: a_ >= b_}
                if type(e.ops[0]) in ops_:
                    return ops_[type(e.ops[0])]()
            if isinstance(e, ast.BoolOp):
                vs = [conc(v_) for v_ in e.values]
                return all(vs) if isinstance(e.op, ast.And) else any(vs)
            if isinstance(e, ast.UnaryOp) and isinstance(e.op, ast.Not):
                return not conc(e.operand)
            raise ValueError(norm(e))
        for st_ in (ast.walk(init_) if init_ is not None else ()):
            if isinstance(st_, ast.Assign) and len(st_.targets) == 1 and isinstance(st_.targets[0], ast.Attribute) and norm(st_.targets[0].value) == 'self' \
                    and st_.targets[0].attr != 'shape':
                try:
                    derived[norm(st_.targets[0])] = conc(st_.value)
                except Exception:
                    pass
        try:
            paths = PathInterp(evm, sinks=('self.function3d.evaluate',), valuation={k_: (1 if v_ else 0) if isinstance(v_, bool) else v_ for k_, v_ in derived.items()},
                               evaluator=SE, inline=helpers, max_paths=8).run()
        except Exception as e_:
            und = 'selector %s: %s' % (shape, str(e_)[:60])
            break
        paths = [p for p in paths]
        if len(paths) != 1:
            und = 'selector %s: %d paths' % (shape, len(paths))
            break
        p = paths[0]
        if 3 in shape:
            if not (p.returned is not None and p.returned.key() == 'raise'):
                bad = (shape, 'an invalid selector does not raise')
                break
            continue
        got = [a_.key() for a_ in p.sinks[0][1]] if len(p.sinks) == 1 else None
        want = [params[k_] for k_ in shape]
        if got is not None and any('?' in g for g in got):
            und = 'selector %s: arguments %s' % (shape, got)
            break
        if got != want:
            bad = (shape, 'the wrapped function is called with %s, expected (%s)' % (got, ', '.join(want)))
            break
    if und:
        run.undecided('C13-R2', 'Swizzle3D selector', 'body not interpreted for ' + und)
    elif bad:
        run.fail('C13-R2', K + 'selector', ci.mod.relpath, evm.lineno,
                 'Swizzle3D.evaluate does not map output axis i to input coordinate shape[i]: for shape %s %s' % bad)
    else:
        run.ok('C13-R2', 'Swizzle3D selector', 'all 27 selectors interpreted: F((x, y, z)[shape[0]], [shape[1]], [shape[2]]); an invalid selector raises')
    run.floor('C13-R2', 45)


def _fleaf(leaf):
    """the wrapped-function call 'F(...)' a leaf is built from (F(...), F(...).x, ROT(F(...), a), clamp(F(...), ..)), else None"""
    i = leaf.find('F(')
    if i < 0:
        return None
    depth = 0
    for j in range(i + 1, len(leaf)):
        if leaf[j] == '(':
            depth += 1
        elif leaf[j] == ')':
            depth -= 1
            if depth == 0:
                return leaf[i:j + 1]
    return None


def _hand_rotation(cand, want, evm, origin, tags):
    """A vector written out as new_vector3d(a, b, c) where the documented value is ROT(F, toroidal angle): True if it is that
    rotation (cos = x/r, sin = y/r) and the division by r is guarded off the axis, a message if it is a different vector or
    unguarded, None if the form is not recognised."""
    val, f, r = cand
    node = r.value
    fl0 = _fleaf(want.key())
    if fl0 is not None and val.eq(L(fl0)):
        # the unrotated vector: exact where the toroidal angle is zero by convention, i.e. on the axis
        on_axis = any(a[1] == '==' and a[2] in ('0', '0.0') and (a[0] == 'r' or a[0].replace(' ', '').startswith('sqrt(')) for a in f) or \
            (any(a[0] == 'x' and a[1] == '==' and a[2] in ('0', '0.0') for a in f) and any(a[0] == 'y' and a[1] == '==' and a[2] in ('0', '0.0') for a in f))
        return True if on_axis else 'returns the wrapped vector without rotating it by the toroidal angle'
    if not (isinstance(node, ast.Call) and dotted(node.func) in ('new_vector3d', 'Vector3D') and len(node.args) == 3):
        return None
    e = WrapEval(origin, tags)
    run_block(e, _stmts_before(evm, r))
    A, B, Cc = [e.ev(a) for a in node.args]
    fl = _fleaf(want.key())
    if fl is None:
        return None
    Fx, Fy, Fz = L(fl + '.x'), L(fl + '.y'), L(fl + '.z')
    X, Y = L('x'), L('y')
    R = e.ev(ast.parse('sqrt(x * x + y * y)', mode='eval').body)
    okx = e.reduce_sqrt((A * R - (Fx * X - Fy * Y)) * R).is_zero() if hasattr(e, 'reduce_sqrt') else (A * R).eq(Fx * X - Fy * Y)
    oky = e.reduce_sqrt((B * R - (Fx * Y + Fy * X)) * R).is_zero() if hasattr(e, 'reduce_sqrt') else (B * R).eq(Fx * Y + Fy * X)
    okz = Cc.eq(Fz)
    if not (okx and oky and okz):
        return ('returns the vector (%s, %s, %s); documented: the wrapped vector rotated about z by the toroidal angle, i.e. '
                '(v.x cos - v.y sin, v.x sin + v.y cos, v.z) with cos = x/r, sin = y/r' % (A.key()[:80], B.key()[:80], Cc.key()[:30]))
    guarded = any((a[0].replace(' ', '') in ('r', R.key().replace(' ', '')) and a[1] in ('>', '!=') and a[2] in ('0', '0.0')) for a in f) or \
        any(a[1] in ('!=',) and a[0] in ('x', 'y') and a[2] in ('0', '0.0') for a in f)
    if not guarded:
        return ('writes the rotation out with cos = x/r, sin = y/r without excluding r = 0: on the axis (x = y = 0) the result is NaN, where the '
                'documented mapping returns the wrapped vector unrotated')
    return True


def _canon_field(text, origin):
    if text.startswith('self.') and text[5:] in origin:
        return '@' + origin[text[5:]]
    if text.startswith('self.'):
        return '@' + text[5:].lstrip('_')
    return text


def _stmts_before(fn, node):
    """Top-down list of simple statements executed before `node` on its path (branches not containing it are skipped)."""
    out = []

    def walk(stmts):
        for st in stmts:
            if st is node:
                return True
            if any(x is node for x in ast.walk(st)):
                if isinstance(st, ast.If):
                    if any(x is node for s in st.body for x in ast.walk(s)):
                        return walk(st.body)
                    return walk(st.orelse)
                if isinstance(st, (ast.For, ast.While, ast.With, ast.Try)):
                    return walk(st.body)
                return True
            if isinstance(st, (ast.Assign, ast.AugAssign, ast.AnnAssign)):
                out.append(st)
        return False
    walk(fn.body)
    return out


# ------------------------------------------------------------------------------------------ R3
AXES = ['x', 'y', 'z']


def _r3(run, prog):
    run.describe('C13-R3', 'samplers: k-th output index == loop variable of the k-th coordinate == k-th evaluate argument; full ranges; both end points')
    mi = prog.modules['cherab.core.math.samplers']
    fns = {n: f for n, f in mi.functions.items() if n.startswith('sample')}
    if len(fns) < 14:
        raise AnalysisError('only %d samplers found (floor 14)' % len(fns))
    for name, fn in sorted(fns.items()):
        run.functions += 1
        K = '%s|%s|' % (mi.name, name)
        nd = int([c for c in name if c.isdigit()][0])
        vector = name.startswith('samplevector')
        kind = 'points' if name.endswith('_points') else ('grid' if name.endswith('_grid') else 'range')
        from ..inline import split_unpacking
        fn = split_unpacking(fn)
        alias = {}
        defs = {}
        for st in fn.body:
            if isinstance(st, ast.Assign) and isinstance(st.targets[0], ast.Name):
                t = st.targets[0].id
                if isinstance(st.value, ast.Name):
                    alias[t] = st.value.id
                defs.setdefault(t, []).append(st.value)

        def root(n):
            seen = set()
            while n in alias and n not in seen:
                seen.add(n)
                n = alias[n]
            return n
        calls = [c for c in ast.walk(fn) if isinstance(c, ast.Call) and isinstance(c.func, ast.Attribute) and c.func.attr == 'evaluate']
        run.subject('C13-R3')
        if len(calls) != 1:
            run.undecided('C13-R3', name, 'expected exactly one evaluate call, found %d' % len(calls))
            continue
        call = calls[0]
        loops = []
        for l in ast.walk(fn):
            if isinstance(l, ast.For) and any(x is call for x in ast.walk(l)):
                loops.append(l)
        loops.sort(key=lambda l: l.lineno)
        problems = []
        if len(call.args) != nd:
            problems.append(('arity', 'evaluate called with %d arguments' % len(call.args)))
        argvars = []
        params = [a.arg for a in fn.args.args]

        def inline(e, depth=0):
            """text of e with single-definition local names replaced by their definitions"""
            if e is None:
                return 'None'
            if isinstance(e, ast.Name) and e.id in defs and depth < 4 and e.id not in params:
                return inline(defs[e.id][-1], depth + 1)
            return norm(e)

        def coord_ok(k, arr):
            d = defs.get(arr, [None])[-1]
            if kind == 'range':
                if not (isinstance(d, ast.Call) and dotted(d.func) in ('linspace', 'np.linspace') and len(d.args) == 3 and not d.keywords):
                    return "%s grid is %s, expected linspace(min, max, n) with both end points" % (AXES[k], norm(d))
                a0, a1, a2 = inline(d.args[0]), inline(d.args[1]), inline(d.args[2])
                rng = '%s_range' % AXES[k]
                if (a0, a1, a2) != (rng + '[0]', rng + '[1]', rng + '[2]'):
                    return "%s grid is linspace(%s, %s, %s), expected linspace(%s[0], %s[1], %s[2])" % (AXES[k], a0, a1, a2, rng, rng, rng)
                return None
            if kind == 'grid':
                return None if arr == AXES[k] and arr in params else "argument %d is taken from '%s', expected the %s coordinates" % (k, arr, AXES[k])
            if nd == 1:
                return None if arr == params[1] else "argument 0 is taken from '%s', expected '%s'" % (arr, params[1])
            want = 'points[:, %d]' % k
            return None if d is not None and want in norm(d) else "coordinate %d is read from %s, expected column %d of the points" % (k, norm(d), k)

        def count_ok(k, cnt, arr):
            c = inline(cnt)
            if kind == 'range':
                # the grid is linspace(min, max, n) (checked above): its length is n, so counting by the array itself is the same count
                return None if c in ('%s_range[2]' % AXES[k], '%s.shape[0]' % arr, 'len(%s)' % arr) else 'loop over %s runs %s times' % (AXES[k], c)
            ok = c in ('%s.shape[0]' % arr, 'len(%s)' % arr, 'points.shape[0]', 'len(points)')
            return None if ok else 'loop over %s runs %s times' % (arr, c)

        arrs = []
        from ..inline import resolver
        res = resolver(fn)
        for k, a in enumerate(call.args):
            if isinstance(a, ast.Name) and res.single(a.id) is not None and isinstance(res.single(a.id).value, ast.Subscript):
                a = res.single(a.id).value        # hoisted read of a coordinate: x_i = x[i]
            if not (isinstance(a, ast.Subscript) and isinstance(a.value, ast.Name) and isinstance(a.slice, ast.Name)):
                problems.append(('argument-shape', 'argument %d is %s' % (k, norm(a))))
                argvars.append(None)
                arrs.append(None)
                continue
            arr = root(a.value.id)
            arrs.append(arr)
            msg = coord_ok(k, arr)
            if msg:
                problems.append(('argument-order', msg))
            argvars.append(a.slice.id)
        # loops and their ranges
        loopvars = [l.target.id for l in loops if isinstance(l.target, ast.Name)]
        want_loops = 1 if kind == 'points' else nd
        if len(loops) != want_loops:
            problems.append(('loops', '%d nested loops, expected %d' % (len(loops), want_loops)))
        for k, l in enumerate(loops):
            it = l.iter
            if not (isinstance(it, ast.Call) and dotted(it.func) == 'range' and len(it.args) == 1):
                problems.append(('loop-range', 'loop %d iterates %s' % (k, norm(it))))
                continue
            msg = count_ok(k, it.args[0], arrs[k] if k < len(arrs) and arrs[k] else '?')
            if msg:
                problems.append(('loop-count', msg))
        if kind == 'points':
            if any(v != loopvars[0] for v in argvars if v) and loopvars:
                problems.append(('point-index', 'coordinates of one point are read at different indices %s' % argvars))
        else:
            if loopvars and argvars[:len(loopvars)] != loopvars[:len(argvars)]:
                problems.append(('argument-index', 'evaluate arguments are indexed by %s but the loops nest as %s' % (argvars, loopvars)))
        # output stores
        stores = [st for st in ast.walk(fn) if isinstance(st, ast.Assign) and isinstance(st.targets[0], ast.Subscript)
                  and isinstance(st.targets[0].value, ast.Name) and root(st.targets[0].value.id) == 'v']
        want_idx = loopvars[:1] if kind == 'points' else loopvars
        if not stores:
            problems.append(('no-store', 'no store into the output array'))
        comps = {}
        for st in stores:
            sl = st.targets[0].slice
            idx = [norm(e) for e in (sl.elts if isinstance(sl, ast.Tuple) else [sl])]
            if vector:
                if idx[:-1] != want_idx:
                    problems.append(('store-index', 'output stored at %s, expected %s + component' % (idx, want_idx)))
                comps[idx[-1]] = norm(st.value)
            else:
                if idx != want_idx:
                    problems.append(('store-index', 'output stored at %s, expected %s' % (idx, want_idx)))
                sv = st.value
                if isinstance(sv, ast.Name) and res.single(sv.id) is not None:
                    sv = res.single(sv.id).value
                if sv is not call:
                    problems.append(('store-value', 'stored value is %s' % norm(st.value)))
        if vector:
            tail = {k: v.split('.')[-1] for k, v in comps.items()}
            if tail != {'0': 'x', '1': 'y', '2': 'z'}:
                problems.append(('vector-components', 'vector components stored as %s' % comps))
        if problems:
            for code, msg in problems[:2]:
                run.fail('C13-R3', K + code, mi.relpath, call.lineno, '%s: %s' % (name, msg))
        else:
            run.ok('C13-R3', name, 'args %s; loops %s; store %s' % ([norm(a) for a in call.args], loopvars, want_idx))
    run.floor('C13-R3', 14)


_MP = M + 'mappers.pyx'
_CL = M + 'clamp.pyx'
_SL = M + 'slice.pyx'
_CY = M + 'transform/cylindrical.pyx'
_PE = M + 'transform/periodic.pyx'
_SA = M + 'samplers.pyx'
MUTANTS = [
    dict(name='closing-vertex-dropped-by-tolerance', file='cherab/core/math/mask.pyx',
         find="        # triangulate polygon\n", replace="        if vertices.shape[0] > 3 and np.allclose(vertices[0], vertices[-1]):\n            vertices = vertices[:-1]\n        # triangulate polygon\n", expect='C13-R4'),
    dict(name='remainder-fast-path-includes-the-period', file=PXD,
         find="    x1 = fmod(x1, x2)\n    if x1 < 0:\n        x1 += x2\n        # a tiny negative remainder plus the period rounds to the period itself\n        if x1 >= x2:\n            x1 = 0\n    return x1",
         replace="    if x1 < 0 or x1 > x2:\n        x1 = fmod(x1, x2)\n        if x1 < 0:\n            x1 += x2\n            if x1 >= x2:\n                x1 = 0\n    return x1", expect='C13-R1'),
    dict(name='D15-reintroduced', file=PXD, find="    if x1 < 0:\n        x1 += x2\n        # a tiny negative remainder plus the period rounds to the period itself\n        if x1 >= x2:\n            x1 = 0\n    return x1",
         replace="    return x1 + x2 if (x1 < 0) else x1", expect='C13-R1'),
    dict(name='remainder-guard-strict', file=PXD, find="        if x1 >= x2:\n            x1 = 0", replace="        if x1 > x2:\n            x1 = 0", expect='C13-R1'),
    dict(name='swizzle2d-not-swapped', file=_MP, find="return self.function2d.evaluate(y, x)", replace="return self.function2d.evaluate(x, y)", expect='C13-R2'),
    dict(name='axisymmetric-radius', file=_MP, find="        return self.function2d.evaluate(sqrt(x*x + y*y), z)", replace="        return self.function2d.evaluate(sqrt(x*x + z*z), y)", expect='C13-R2'),
    dict(name='vector-rotation-in-radians', file=_CY, find="rotate_z(phi / M_PI * 180)", replace="rotate_z(phi)", expect='C13-R2'),
    dict(name='clamp-input-y-uses-x-bounds', file=_CL, find="        y = clamp(y, self._ymin, self._ymax)\n        z = clamp(z, self._zmin, self._zmax)", replace="        y = clamp(y, self._xmin, self._xmax)\n        z = clamp(z, self._zmin, self._zmax)", expect='C13-R2'),
    dict(name='slice3d-axis1-wrong-slot', file=_SL, find="return self._function.evaluate(x, self.value, y)", replace="return self._function.evaluate(x, y, self.value)", expect='C13-R2'),
    dict(name='periodic-y-uses-period-x', file=_PE, find="        y = remainder(y, self.period_y)\n\n        return self.function2d.evaluate(x, y)", replace="        y = remainder(y, self.period_x)\n\n        return self.function2d.evaluate(x, y)", occurrence=0, of=2, expect='C13-R2'),
    dict(name='cylindrical-atan2-swapped', file=_CY, find="        phi = atan2(y, x)\n\n        return self.function3d.evaluate(r, phi, z)\n", replace="        phi = atan2(x, y)\n\n        return self.function3d.evaluate(r, phi, z)\n", expect='C13-R2'),
    dict(name='sampler-index-swap', file=_SA, find="            v_view[i, j] = f2d.evaluate(x_view[i], y_view[j])", replace="            v_view[j, i] = f2d.evaluate(x_view[i], y_view[j])", occurrence=0, of=2, expect='C13-R3'),
    dict(name='sampler-endpoint-false', file=_SA, find="    x = linspace(x_range[0], x_range[1], samples)", replace="    x = linspace(x_range[0], x_range[1], samples, endpoint=False)", expect='C13-R3'),
    dict(name='sampler-skips-last', file=_SA, find="    for i in range(samples):\n        v_view[i] = f1d.evaluate(x_view[i])", replace="    for i in range(samples - 1):\n        v_view[i] = f1d.evaluate(x_view[i])", expect='C13-R3'),
    dict(name='swizzle3d-selector', file=_MP, find="            if self.shape[i] == 0:\n                d[i] = x\n            elif self.shape[i] == 1:\n                d[i] = y", replace="            if self.shape[i] == 0:\n                d[i] = y\n            elif self.shape[i] == 1:\n                d[i] = x", expect='C13-R2'),
    dict(name='ctor-miswires-bounds', file=_CL, find="        self._min = min\n        self._max = max", replace="        self._min = max\n        self._max = min", occurrence=1, of=3, expect='C13-R2'),
]
TWINS = [
    dict(name='remainder-fast-path-inside-the-base-interval', file=PXD,
         find="    x1 = fmod(x1, x2)\n    if x1 < 0:\n        x1 += x2\n        # a tiny negative remainder plus the period rounds to the period itself\n        if x1 >= x2:\n            x1 = 0\n    return x1",
         replace="    if x1 < 0 or x1 >= x2:\n        x1 = fmod(x1, x2)\n        if x1 < 0:\n            x1 += x2\n            if x1 >= x2:\n                x1 = 0\n    return x1"),
    dict(name='guarded-hand-written-rotation', patch='sa/patches/c13_guarded_hand_rotation.diff'),
    dict(name='square-spelled-as-power', file=_MP, find="        return self.function2d.evaluate(sqrt(x*x + y*y), z)", replace="        r = sqrt(y**2 + x**2)\n        return self.function2d.evaluate(r, z)"),
    dict(name='degrees-reordered', file=_CY, find="rotate_z(phi / M_PI * 180)", replace="rotate_z(180 * phi / M_PI)"),
]
