"""C10 -- ray-transfer matrices (DESIGN section 5, C10)."""
import ast
import re

from ..program import Program, dotted, norm
from ..report import AnalysisError
from ..flow import guards_of, facts, stores
from ..algebra import SymEval, C, L, Rat, run_block
from ..exprcmp import EmEval

FILE = 'cherab/tools/raytransfer/emitters.pyx'
M = 'cherab.tools.raytransfer.emitters'


PIPES = 'cherab/tools/raytransfer/pipelines.py'
RTOBJ = 'cherab/tools/raytransfer/raytransfer.py'


def check(run):
    prog = Program()
    prog.load_many([FILE, PIPES, RTOBJ])
    run.use_file(FILE)
    run.use_file(PIPES)
    run.use_file(RTOBJ)
    run.explanation = (
        'Decides structural necessary conditions of C10 on both integrators, both emitters and the map setters: (R1) every store '
        'into the spectrum is dominated by "source index > -1" and the index is a voxel_map value: cells mapped to -1 receive '
        'nothing; (R2) accumulate/flush pairing: the path length accumulated for the current source is stored before every reset '
        'and after the loop, it is only accumulated while a source is active, and the amount per sample is dt = length / n, '
        'independent of the cell indices -- merging cells cannot change a source\'s total and nothing of the chord inside active '
        'cells is dropped; (R3) the subscript order of voxel_map[., ., .] is the grid axis order (r, phi, z / x, y, z) with each '
        'index computed from its own coordinate and step, the phi index from an angle reduced modulo the period; (R4) the two '
        'integrators are identical modulo the coordinate-to-index block, bins = voxel_map.max() + 1 in both setters, and masked-out '
        'cells map to -1; (R5) every field a ray-transfer pipeline or pixel processor accumulates into is re-initialised when an '
        'observation starts, so a second observe() with the same pipeline object gives the same matrix. Does not decide chord-length accuracy, behaviour on edges/corners or angular wrap numerics.')
    run.assumptions = ['raysect hands integrate() the entry and exit points of the chord inside the primitive']
    classes = {c.name: c for c in prog.classes.values()}
    for n in ('CylindricalRayTransferIntegrator', 'CartesianRayTransferIntegrator', 'RayTransferEmitter', 'CylindricalRayTransferEmitter',
              'CartesianRayTransferEmitter'):
        if n not in classes:
            raise AnalysisError('anchored class vanished: %s' % n)
    # shape normalisation: private helpers (methods or module-level functions) other than the anchors of the rules are read where they are called
    for n in ('CylindricalRayTransferIntegrator', 'CartesianRayTransferIntegrator', 'RayTransferEmitter', 'CylindricalRayTransferEmitter',
              'CartesianRayTransferEmitter'):
        prog.normalise_class(classes[n], keep=('_map_from_mask',), propagate=False)
    ints = [classes['CylindricalRayTransferIntegrator'], classes['CartesianRayTransferIntegrator']]
    ems = [classes['CylindricalRayTransferEmitter'], classes['CartesianRayTransferEmitter']]
    for ci in ints:
        _integrator(run, ci)
    for ci in ems:
        _emitter(run, ci)
    _siblings(run, ints)
    _maps(run, classes['RayTransferEmitter'])
    _pipelines(run, prog)
    _own_copy(run, prog, classes['RayTransferEmitter'])
    _r7_objects(run, prog)
    _r8_pipelines(run, prog)
    from ..cachekey import check_caches
    check_caches(run, [m for k, m in prog.modules.items() if k.startswith('cherab.tools.raytransfer') and not k.endswith('#pxd')], 'C10-K', prog=prog)


def _own_copy(run, prog, ci):
    """R6: the emitter keeps its own copy of the voxel map: bins = max + 1 is computed once, so a map that can be changed through the caller's
    array afterwards sends path length to bins that do not exist or to masked-out cells."""
    from ..flow import copy_kind
    from ..inline import resolver
    run.describe('C10-R6', 'the stored voxel map is a copy of the array given to the setter, not the caller\'s array or a view of it')
    fn = ci.setters.get('voxel_map')
    run.subject('C10-R6')
    if fn is None:
        run.undecided('C10-R6', 'RayTransferEmitter.voxel_map', 'setter not found')
        return
    p = fn.args.args[1].arg
    res = resolver(fn)
    sts = [(t, v, st) for t, v, st in stores(fn) if isinstance(t, ast.Attribute) and norm(t) == 'self._voxel_map']
    if not sts:
        run.undecided('C10-R6', 'RayTransferEmitter.voxel_map', 'no store of the map')
        return
    kinds = [(copy_kind(res(v), {p}), st) for t, v, st in sts]
    bad = [st for k, st in kinds if k == 'alias']
    if bad:
        run.fail('C10-R6', '%s|RayTransferEmitter|setter:voxel_map|alias' % ci.mod.name, ci.mod.relpath, bad[0].lineno,
                 "the voxel_map setter stores %s: when the caller's array already has the right type and layout it is kept as is, so later in-place "
                 "changes of that array change the map under the emitter while bins stays what it was" % norm(bad[0].value)[:70])
    elif all(k == 'copy' for k, st in kinds):
        run.ok('C10-R6', 'RayTransferEmitter.voxel_map', 'stored as %s' % norm(sts[0][1])[:50])
    else:
        run.undecided('C10-R6', 'RayTransferEmitter.voxel_map', 'conversion %s not recognised' % norm(sts[0][1])[:50])


def _pipelines(run, prog):
    """R5: accumulators of the pipelines are reset by initialise() (per observation); those of the pixel processors by __init__ (per pixel)."""
    from ..effects import Effects, self_chain
    run.describe('C10-R5', 'fields accumulated by update() / add_sample() are re-initialised by initialise() / __init__ of the same class')
    eff = Effects(prog)
    n = 0
    for ci in sorted(prog.classes.values(), key=lambda c: c.qual):
        if ci.mod.relpath != PIPES:
            continue
        for acc_m, init_m in (('update', 'initialise'), ('add_sample', '__init__')):
            k, am = prog.find_method(ci, acc_m)
            if am is None or acc_m not in ci.methods and not any(acc_m in b.methods for b in prog.mro(ci) if not isinstance(b, str)):
                continue
            if acc_m not in ci.methods:
                continue
            accs = sorted({self_chain(st.target) for st in ast.walk(am) if isinstance(st, ast.AugAssign) and isinstance(st.target, ast.Attribute) and self_chain(st.target)}
                          | {self_chain(st.target.value) for st in ast.walk(am) if isinstance(st, ast.AugAssign) and isinstance(st.target, ast.Subscript)
                             and isinstance(st.target.value, ast.Attribute) and self_chain(st.target.value)}
                          | {self_chain(st.targets[0].value) for st in ast.walk(am) if isinstance(st, ast.Assign) and isinstance(st.targets[0], ast.Subscript)
                             and isinstance(st.targets[0].value, ast.Attribute) and self_chain(st.targets[0].value)})
            ik, im = prog.find_method(ci, init_m)
            for f in accs:
                n += 1
                run.subject('C10-R5')
                writes = eff.closure(ik, im).writes if im is not None else {}
                from ..flow import enclosing_conditions
                direct = [st for st in ast.walk(im) if isinstance(st, ast.Assign) and any(isinstance(t, ast.Attribute) and self_chain(t) == f for t in st.targets)] if im is not None else []
                uncond = [st for st in direct if not enclosing_conditions(im, st)]
                if f in writes and (uncond or not direct):
                    run.ok('C10-R5', '%s.%s' % (ci.name, f), 'accumulated by %s, reset by %s.%s' % (acc_m, ik.name, init_m), sample=False)
                elif f in writes:
                    run.fail('C10-R5', '%s|%s|%s|conditional-reset:%s' % (ci.mod.name, ci.name, init_m, f), ci.mod.relpath, direct[0].lineno,
                             '%s.%s accumulates into %s but %s re-initialises it only when %s: otherwise a second observation starts from the totals of the '
                             'first' % (ci.name, acc_m, f, init_m, ' and '.join(norm(e) for e, pol in enclosing_conditions(im, direct[0]) if isinstance(e, ast.AST))))
                else:
                    run.fail('C10-R5', '%s|%s|%s|not-reset:%s' % (ci.mod.name, ci.name, init_m, f), ci.mod.relpath, (im or am).lineno,
                             '%s.%s accumulates into %s but %s does not re-initialise it: a second observation with the same pipeline starts from the '
                             'totals of the first, so the matrix is scaled or shifted by what was observed before' % (ci.name, acc_m, f, init_m))
    run.floor('C10-R5', 5)


def _r8_pipelines(run, prog):
    """R8: the pipelines turn what the pixel processors return into the matrix row: the 0D pipeline sums the per-pixel means and sample
    counts and divides once at the end; the 1D / 2D pipelines store, for each pixel, the summed row divided by the samples per pixel;
    the processors add the ray's spectrum (times the pixel sensitivity for 'power') and hand back (matrix, 0)."""
    run.describe('C10-R8', 'pipelines / pixel processors: row = sum of sample spectra (x sensitivity) / number of samples')
    mi = prog.modules.get('cherab.tools.raytransfer.pipelines')
    if mi is None:
        raise AnalysisError('anchored source file vanished: %s' % PIPES)
    K = mi.name + '|'
    for cname, cnode in sorted(mi.classes.items()):
        ms = {m.name: m for m in cnode.body if isinstance(m, ast.FunctionDef)}
        if 'update' in ms and 'initialise' in ms:
            up = ms['update']
            params = [a.arg for a in up.args.args]
            packed = next((p for p in params if 'result' in p), None)
            sts = [st for st in ast.walk(up) if isinstance(st, (ast.Assign, ast.AugAssign))]
            run.subject('C10-R8')
            if packed is None or not sts:
                run.undecided('C10-R8', cname + '.update', 'stores not recognised')
                continue
            bad = None
            got_matrix = False
            for st in sts:
                tgt = st.target if isinstance(st, ast.AugAssign) else st.targets[0]
                t = norm(tgt)
                v = norm(st.value).replace(' ', '')
                if t == 'self._matrix' and isinstance(st, ast.AugAssign):
                    got_matrix = True
                    if not isinstance(st.op, ast.Add) or v != '%s[0]' % packed:
                        bad = (st, 'the accumulated matrix is updated with %s; documented: += %s[0] (the summed row of the pixel)' % (norm(st), packed))
                elif t == 'self._samples' and isinstance(st, ast.AugAssign):
                    if not isinstance(st.op, ast.Add) or not (v in params):
                        bad = (st, 'the sample count is updated with %s; documented: += the number of samples of the pixel' % norm(st))
                elif t.startswith('self._matrix['):
                    got_matrix = True
                    if v != '%s[0]/self._samples' % packed:
                        bad = (st, 'the row of a pixel is %s; documented: %s[0] / self._samples (summed row over the samples per pixel)' % (norm(st.value), packed))
            if bad:
                run.fail('C10-R8', K + cname + '|update', PIPES, bad[0].lineno, '%s.update: %s' % (cname, bad[1]))
            elif not got_matrix:
                run.fail('C10-R8', K + cname + '|update|nothing', PIPES, up.lineno, '%s.update does not store the result of the pixel into the matrix' % cname)
            else:
                run.ok('C10-R8', cname + '.update', 'row from packed_result[0]')
            if any(isinstance(st, ast.AugAssign) and norm(st.target) == 'self._samples' for st in sts):
                # the running sums are divided by the total number of samples exactly once, at the end
                run.subject('C10-R8')
                fin = ms.get('finalise')
                divs = [st for st in (ast.walk(fin) if fin is not None else ()) if isinstance(st, ast.AugAssign) and norm(st.target) == 'self._matrix']
                if len(divs) == 1 and isinstance(divs[0].op, ast.Div) and norm(divs[0].value) == 'self._samples':
                    run.ok('C10-R8', cname + '.finalise', 'matrix /= samples')
                else:
                    run.fail('C10-R8', K + cname + '|finalise', PIPES, (fin or up).lineno,
                             '%s.finalise does not divide the accumulated matrix by the number of samples exactly once (%s)' % (cname, [norm(d) for d in divs]))
        if 'add_sample' in ms:
            f = ms['add_sample']
            sp, sens = [a.arg for a in f.args.args[1:3]]
            run.subject('C10-R8')
            sts = [st for st in ast.walk(f) if isinstance(st, (ast.Assign, ast.AugAssign))]
            want = '%s.samples*%s' % (sp, sens) if 'Power' in cname else '%s.samples' % sp
            alt = '%s*%s.samples' % (sens, sp) if 'Power' in cname else want
            if len(sts) == 1 and isinstance(sts[0], ast.AugAssign) and isinstance(sts[0].op, ast.Add) and norm(sts[0].target) == 'self._matrix' \
                    and norm(sts[0].value).replace(' ', '') in (want, alt):
                run.ok('C10-R8', cname + '.add_sample', norm(sts[0]))
            elif len(sts) == 1 and norm(sts[0].target if isinstance(sts[0], ast.AugAssign) else sts[0].targets[0]) == 'self._matrix':
                run.fail('C10-R8', K + cname + '|add_sample', PIPES, sts[0].lineno, '%s.add_sample does %s; documented: self._matrix += %s' % (cname, norm(sts[0]), want))
            else:
                run.undecided('C10-R8', cname + '.add_sample', 'form not recognised')
        if 'pack_results' in ms:
            run.subject('C10-R8')
            rets = [r for r in ast.walk(ms['pack_results']) if isinstance(r, ast.Return) and r.value is not None]
            if len(rets) == 1 and norm(rets[0].value).replace(' ', '') in ('(self._matrix,0)', '(self._matrix,0.0)'):
                run.ok('C10-R8', cname + '.pack_results', '(matrix, 0)')
            elif len(rets) == 1 and isinstance(rets[0].value, ast.Tuple) and norm(rets[0].value.elts[0]) != 'self._matrix':
                run.fail('C10-R8', K + cname + '|pack_results', PIPES, rets[0].lineno, '%s.pack_results returns %s: the pipeline reads the summed row from element 0' % (cname, norm(rets[0].value)))
            else:
                run.undecided('C10-R8', cname + '.pack_results', 'form not recognised')
    run.floor('C10-R8', 6)


def _r7_objects(run, prog):
    """R7: the ready-made objects hand the emitter the grid they bound: shape (n_1, n_2, n_3) and steps (extent_k / n_k) in the same axis
    order, the inner radius as rmin, and a bounding primitive that lies *inside* the grid by a small fraction of a cell on the far sides
    (so that every point the integrator samples has indices below the grid shape), never outside it."""
    run.describe('C10-R7', 'RayTransferCylinder / RayTransferBox: grid shape and steps per axis, rmin, bounding primitive inside the grid')
    mi = prog.modules.get('cherab.tools.raytransfer.raytransfer')
    if mi is None:
        raise AnalysisError('anchored source file vanished: %s' % RTOBJ)
    from ..inline import flatten, module_lookup
    spec = {
        'RayTransferCylinder': dict(emitter='CylindricalRayTransferEmitter', shape=['n_radius', 'n_polar', 'n_height'],
                                    steps=['(radius_outer - radius_inner) / n_radius', 'period / n_polar', 'height / n_height'],
                                    kw={'rmin': 'radius_inner'},
                                    far=[('radius_outer', 0, 'outer radius'), ('height', 2, 'height')], near=[('radius_inner', 0, 'inner radius')]),
        'RayTransferBox': dict(emitter='CartesianRayTransferEmitter', shape=['nx', 'ny', 'nz'], steps=['xmax / nx', 'ymax / ny', 'zmax / nz'], kw={},
                               far=[('xmax', 0, 'x extent'), ('ymax', 1, 'y extent'), ('zmax', 2, 'z extent')], near=[]),
    }
    for cname, sp in spec.items():
        ci = prog.classes.get(mi.name + '.' + cname)
        init = ci.methods.get('__init__') if ci is not None else None
        if init is None:
            raise AnalysisError('anchored method vanished: %s.__init__' % cname)
        try:
            init = flatten(init, module_lookup(mi, prog=prog))
        except Exception:
            pass
        K = '%s|%s|__init__|' % (mi.name, cname)
        ev = SymEval()
        for a in init.args.args[1:]:
            ev.env[a.arg] = L(a.arg)
        tup = {}
        em = None
        prim_nums = []
        for st in init.body:
            if isinstance(st, ast.Assign) and len(st.targets) == 1 and isinstance(st.targets[0], ast.Name):
                v = st.value
                if isinstance(v, ast.Tuple):
                    try:
                        tup[st.targets[0].id] = [ev.ev(e) for e in v.elts]
                    except Exception:
                        pass
                    continue
                if isinstance(v, ast.BoolOp):          # step = step or default
                    continue
                calls = [c for c in ast.walk(v) if isinstance(c, ast.Call)]
                if any((dotted(c.func) or '').split('.')[-1] == sp['emitter'] for c in calls):
                    em = [c for c in calls if (dotted(c.func) or '').split('.')[-1] == sp['emitter']][0]
                    continue
                if any((dotted(c.func) or '').split('.')[-1] in ('Cylinder', 'Box', 'Subtract', 'Point3D') for c in calls):
                    prim_nums.append(v)
                    continue
                try:
                    ev.env[st.targets[0].id] = ev.ev(v)
                except Exception:
                    pass
        run.subject('C10-R7')
        if em is None or len(em.args) < 2:
            run.undecided('C10-R7', cname, 'emitter construction not found')
            continue

        def val(e):
            if isinstance(e, ast.Name) and e.id in tup:
                return tup[e.id]
            if isinstance(e, ast.Tuple):
                return [ev.ev(x) for x in e.elts]
            return None
        shape, steps = val(em.args[0]), val(em.args[1])
        want_shape = [L(n) for n in sp['shape']]
        want_steps = [ev.ev(ast.parse(t, mode='eval').body) for t in sp['steps']]
        if shape is None or steps is None:
            run.undecided('C10-R7', cname, 'grid shape / steps not resolved')
            continue
        if not (len(shape) == 3 and all(a.eq(b) for a, b in zip(shape, want_shape))):
            run.fail('C10-R7', K + 'shape', RTOBJ, em.lineno, '%s hands the emitter the grid shape %s; documented: (%s)' % (cname, [x.key() for x in shape], ', '.join(sp['shape'])))
            continue
        if not (len(steps) == 3 and all(a.eq(b) for a, b in zip(steps, want_steps))):
            run.fail('C10-R7', K + 'steps', RTOBJ, em.lineno, '%s hands the emitter the grid steps %s; documented: (%s) -- the cell a sample point '
                     'falls into is found by dividing its coordinate by the step of that axis' % (cname, [x.key() for x in steps], ', '.join(sp['steps'])))
            continue
        kw = {k.arg: k.value for k in em.keywords}
        badkw = [k for k, w in sp['kw'].items() if k not in kw or not ev.ev(kw[k]).eq(L(w))]
        if badkw:
            run.fail('C10-R7', K + 'rmin', RTOBJ, em.lineno, '%s does not pass %s = %s to the emitter' % (cname, badkw[0], sp['kw'][badkw[0]]))
            continue
        run.ok('C10-R7', cname + ' grid', 'shape (%s), steps (%s)' % (', '.join(sp['shape']), ', '.join(sp['steps'])))
        # bounding primitive: every far bound is extent - c * step with a small positive constant c, every near bound extent + c * step
        run.subject('C10-R7')
        nums = []
        for v in prim_nums:
            for c in ast.walk(v):
                if isinstance(c, ast.Call) and (dotted(c.func) or '').split('.')[-1] in ('Cylinder', 'Point3D'):
                    for a in c.args:
                        try:
                            nums.append(ev.ev(a))
                        except Exception:
                            pass
        verdict = []
        from fractions import Fraction as _F

        def frac_of_cell(diff, axis):
            # diff / step of that axis, if it is the same constant at two different rational points
            leaves = sorted(set(diff.leaves()) | set(want_steps[axis].leaves()))
            vals = []
            for seed in (3, 7):
                sub = {l: C(_F(seed * (k + 2) + k * k + 1, 1 + (k % 3))) for k, l in enumerate(leaves)}
                try:
                    d_, s_ = diff.subst(sub), want_steps[axis].subst(sub)
                    if not (d_.is_const() and s_.is_const()) or s_.const_value() == 0:
                        return None
                    vals.append(_F(d_.const_value()) / _F(s_.const_value()))
                except Exception:
                    return None
            return vals[0] if vals[0] == vals[1] else None
        for ext, axis, what in sp['far']:
            cs = [frac_of_cell(L(ext) - n, axis) for n in nums if ext in n.leaves()]
            close = [c for c in cs if c is not None and abs(c) < _F(1, 2)]        # every dimension that is 'the extent, nearly'
            good = [c for c in close if 0 < c <= _F(1, 100)]
            verdict.append((what, bool(good) and len(good) == len(close), 'far'))
        for ext, axis, what in sp['near']:
            cs = [frac_of_cell(n - L(ext), axis) for n in nums if ext in n.leaves()]
            close = [c for c in cs if c is not None and abs(c) < _F(1, 2)]
            good = [c for c in close if 0 < c <= _F(1, 100)]
            verdict.append((what, bool(good) and len(good) == len(close), 'near'))
        if not nums:
            run.undecided('C10-R7', cname + ' bounding primitive', 'dimensions not resolved')
        elif all(v[1] for v in verdict):
            run.ok('C10-R7', cname + ' bounding primitive', 'inside the grid by a fraction of a cell: %s' % [v[0] for v in verdict])
        else:
            w = [v for v in verdict if not v[1]][0]
            run.fail('C10-R7', K + 'bounds:' + w[0].replace(' ', '-'), RTOBJ, init.lineno,
                     "%s: the %s of the bounding primitive is not pulled %s by a small fraction of a cell: a ray end point on the "
                     "boundary then maps to an index equal to the grid size (or below zero) and the integrator reads outside the voxel map"
                     % (cname, w[0], 'inside the grid' if w[2] == 'far' else 'away from the inner wall'))
    run.floor('C10-R7', 4)


def _spec_stores(fn, sp):
    return [st for st in ast.walk(fn) if isinstance(st, ast.AugAssign) and norm(st.target).startswith(sp + '.samples_mv[')]


def _integrator(run, ci):
    run.describe('C10-R1', 'stores into the spectrum dominated by index > -1; the index is a voxel_map value')
    run.describe('C10-R2', 'accumulate / flush pairing; dt = length / n independent of the cell')
    run.describe('C10-R3', 'voxel_map subscripts in grid axis order, each from its own coordinate and step; phi reduced modulo the period')
    fn = ci.methods.get('integrate')
    if fn is None:
        raise AnalysisError('anchored method vanished: %s.integrate' % ci.name)
    run.functions += 1
    K = '%s|%s|integrate|' % (M, ci.name)
    sp = fn.args.args[1].arg
    # a local view of the spectral array (samples = spectrum.samples_mv) is the array
    views = [st for st in ast.walk(fn) if isinstance(st, ast.Assign) and len(st.targets) == 1 and isinstance(st.targets[0], ast.Name)
             and norm(st.value) == sp + '.samples_mv']
    if views:
        import copy as _copy
        fn = _copy.deepcopy(fn)
        names = {v.targets[0].id for v in views}

        class _V(ast.NodeTransformer):
            def visit_Name(self, n):
                if n.id in names and not isinstance(n.ctx, ast.Store):
                    return ast.copy_location(ast.Attribute(value=ast.Name(id=sp, ctx=ast.Load()), attr='samples_mv', ctx=ast.Load()), n)
                return n
        fn.body = [_V().visit(st) for st in fn.body if not (isinstance(st, ast.Assign) and len(st.targets) == 1
                                                            and isinstance(st.targets[0], ast.Name) and st.targets[0].id in names)]
        ast.fix_missing_locations(fn)
    sts = _spec_stores(fn, sp)
    for st in ast.walk(fn):
        if isinstance(st, ast.Assign) and any(norm(t).startswith(sp + '.samples_mv[') for t in st.targets):
            run.subject('C10-R2')
            run.fail('C10-R2', K + 'overwrite', ci.mod.relpath, st.lineno,
                     '%s.integrate assigns %s = %s: the ray may have crossed the same source earlier (a source that is not convex, or '
                     'several cells mapped to one source), and the length collected then is overwritten instead of added to'
                     % (ci.name, norm(st.targets[0]), norm(st.value)))
    loops = [l for l in fn.body if isinstance(l, ast.For)]
    if len(loops) != 1 or not sts:
        raise AnalysisError('%s.integrate: sample loop or spectrum stores not found' % ci.name)
    lp = loops[0]
    # ---- R1
    for st in sts:
        run.subject('C10-R1')
        idx = norm(st.target.slice)
        f = facts(guards_of(fn, st) or [])
        if (idx, '>', '-1') in f or (idx, '>=', '0') in f:
            run.ok('C10-R1', '%s store at %s' % (ci.name, idx), '%s > -1' % idx)
        else:
            run.fail('C10-R1', K + 'unguarded-store:' + idx, ci.mod.relpath, st.lineno,
                     '%s.integrate adds to spectrum.samples_mv[%s] without checking %s > -1: masked-out cells (map value -1) write into the last bin' % (ci.name, idx, idx))
    # roles from the stores themselves: samples[<current source>] += <running length>
    pairs = {(norm(st.target.slice), norm(st.value)) for st in sts if isinstance(st.value, ast.Name)}
    if len(pairs) != 1:
        run.subject('C10-R2')
        run.undecided('C10-R2', ci.name + '.integrate', 'stores into the spectrum do not use one (index, running length) pair: %s' % sorted(pairs))
        return
    cur, RES = list(pairs)[0]
    NONNEG = (cur + ' > -1', cur + ' >= 0', '-1 < ' + cur, '0 <= ' + cur)
    src_defs = [norm(v) for t, v, s in stores(fn) if isinstance(t, ast.Name) and t.id == cur and isinstance(s, ast.Assign)]
    newsrc = sorted(set(src_defs) - {'-1'})
    ISRC = newsrc[0] if len(newsrc) == 1 else 'isource'
    isrc = [norm(v) for t, v, s in stores(fn) if isinstance(t, ast.Name) and t.id == ISRC and isinstance(s, ast.Assign)]
    run.subject('C10-R1')
    if set(src_defs) <= {'-1', ISRC} and len(isrc) == 1 and re.match(r'^\w*voxel_map\w*\[', isrc[0]):
        run.ok('C10-R1', ci.name + ' index provenance', 'isource_current <- isource <- %s' % isrc[0])
    else:
        run.fail('C10-R1', K + 'index-provenance', ci.mod.relpath, fn.lineno, 'the stored index comes from %s / %s, not from the voxel map' % (src_defs, isrc))
    # ---- R2
    defs = {}
    for t, v, s in stores(fn):
        if isinstance(s, ast.Assign):
            defs.setdefault(norm(t), []).append(norm(v))
    run.subject('C10-R2')
    okdt = defs.get('dt') == ['length / n'] and defs.get('n') == ["max(self._min_samples, __cast__('int', length / self._step))"] \
        and defs.get('t') == ['(it + 0.5) * dt'] and norm(lp.iter) == 'range(n)' and defs.get('length') == ['direction.get_length()']
    if okdt:
        run.ok('C10-R2', ci.name + ' sampling', 'n = max(min_samples, int(length / step)); dt = length / n; t = (it + 1/2) dt')
    else:
        run.fail('C10-R2', K + 'sampling', ci.mod.relpath, fn.lineno,
                 'sampling is n = %s, dt = %s, t = %s over %s' % (defs.get('n'), defs.get('dt'), defs.get('t'), norm(lp.iter)))
    acc = [st for st in ast.walk(lp) if isinstance(st, ast.AugAssign) and norm(st.target) == RES]
    run.subject('C10-R2')
    okacc = len(acc) == 1 and norm(acc[0].value) == 'dt' and isinstance(acc[0].op, ast.Add)
    if okacc:
        f = facts(guards_of(fn, acc[0]) or [])
        idxvars = {norm(e) for n_ in ast.walk(fn) if isinstance(n_, ast.Subscript) and 'voxel_map' in norm(n_.value) and isinstance(n_.slice, ast.Tuple)
                   for e in n_.slice.elts}
        okacc = ((cur, '>', '-1') in f or (cur, '>=', '0') in f) and not any(a[0] in idxvars or a[2] in idxvars for a in f if a[1] in ('==', '!='))
        # the accumulation is at the top level of the loop body (not inside the cell-change branch)
        okacc = okacc and any(isinstance(s, ast.If) and norm(s.test) in NONNEG and acc[0] in s.body for s in lp.body)
    if okacc:
        run.ok('C10-R2', ci.name + ' accumulation', 'res += dt for every sample while a source is active')
    else:
        run.fail('C10-R2', K + 'accumulation', ci.mod.relpath, (acc[0] if acc else lp).lineno,
                 '%s.integrate does not add dt to the running length for every sample taken while a source is active' % ci.name)
    # every sample reaches the source-change test: a sample skipped before it (continue / break) leaves the previous source 'current', so the
    # length of the cells that follow -- which belong to no source or to another one -- is credited to it
    chg_ = [s for s in lp.body if isinstance(s, ast.If) and cur in norm(s.test) and ISRC in norm(s.test)]
    def _own_jumps(loop):
        # continue / break statements that act on this loop (not on a loop nested in it)
        out_ = []

        def go_(stmts):
            for s_ in stmts:
                if isinstance(s_, (ast.Continue, ast.Break)):
                    out_.append(s_)
                elif isinstance(s_, (ast.For, ast.While)):
                    continue
                else:
                    for f_ in ('body', 'orelse', 'finalbody'):
                        b_ = getattr(s_, f_, None)
                        if isinstance(b_, list):
                            go_(b_)
                    if isinstance(s_, ast.Try):
                        for h_ in s_.handlers:
                            go_(h_.body)
        go_(loop.body)
        return out_
    for j_ in _own_jumps(lp):
        top_ = next((s for s in lp.body if any(y is j_ for y in ast.walk(s))), None)
        if top_ is not None and chg_ and lp.body.index(top_) < lp.body.index(chg_[0]):
            run.subject('C10-R2')
            run.fail('C10-R2', K + 'sample-skipped', ci.mod.relpath, j_.lineno,
                     '%s.integrate leaves a sample (%s under %s) before the source-change test: the source that was current stays current, and the '
                     'samples taken in the following cells keep adding to its length' % (ci.name, type(j_).__name__.lower(), norm(top_.test)[:40] if isinstance(top_, ast.If) else '?'))
    # reset only after flush
    resets = [st for st in ast.walk(lp) if isinstance(st, ast.Assign) and norm(st.targets[0]) == RES]
    run.subject('C10-R2')
    okreset = False
    for r in resets:
        blk = _block_of(lp, r)
        if blk is None:
            continue
        i = blk.index(r)
        before = blk[:i]
        flush = [s for s in before if isinstance(s, ast.If) and norm(s.test) in NONNEG
                 and any(isinstance(x, ast.AugAssign) and norm(x.target) == '%s.samples_mv[%s]' % (sp, cur) and norm(x.value) == RES for x in s.body)]
        switch = [s for s in blk if isinstance(s, ast.Assign) and norm(s.targets[0]) == cur and norm(s.value) == ISRC]
        # the flush must precede both the reset and the switch of the current source
        if flush and switch and blk.index(flush[0]) < blk.index(switch[0]) and norm(r.value) in ('0', '0.0'):
            okreset = True
    if len(resets) == 1 and okreset:
        run.ok('C10-R2', ci.name + ' flush before reset', 'samples[current] += res ; current = new ; res = 0')
    else:
        run.fail('C10-R2', K + 'flush-before-reset', ci.mod.relpath, (resets[0] if resets else lp).lineno,
                 '%s.integrate resets the running length without first storing it for the source being left: part of the chord is dropped' % ci.name)
    run.subject('C10-R2')
    tail = [s for s in fn.body if s.lineno > lp.lineno]
    okfinal = any(isinstance(s, ast.If) and norm(s.test) in NONNEG
                  and any(isinstance(x, ast.AugAssign) and norm(x.target) == '%s.samples_mv[%s]' % (sp, cur) and norm(x.value) == RES for x in s.body) for s in tail)
    okfinal = okfinal and tail and isinstance(tail[-1], ast.Return) and norm(tail[-1].value) == sp
    if okfinal:
        run.ok('C10-R2', ci.name + ' final flush', 'after the loop the last source receives its length')
    else:
        run.fail('C10-R2', K + 'final-flush', ci.mod.relpath, fn.lineno, '%s.integrate does not store the running length of the last source after the loop' % ci.name)
    run.subject('C10-R2')
    init_ok = defs.get(RES, [None])[0] in ('0', '0.0') and defs.get(cur, [None])[0] == '-1'
    chg = [s for s in ast.walk(lp) if isinstance(s, ast.If) and norm(s.test).replace(' ', '') in (
        '%s!=%s' % (ISRC, cur), '%s!=%s' % (cur, ISRC), 'not%s==%s' % (ISRC, cur), 'not%s==%s' % (cur, ISRC))]
    if init_ok and chg:
        run.ok('C10-R2', ci.name + ' source switch', 'starts with no source; switches when the map value changes', sample=False)
    else:
        run.fail('C10-R2', K + 'source-switch', ci.mod.relpath, fn.lineno, 'initial state %s / %s or the source-change test is missing' % (defs.get(RES), defs.get(cur)))
    # ---- R3
    _indices(run, ci, fn, K, defs, in_loop=True)


def _indices(run, ci, fn, K, defs, in_loop):
    cyl = 'Cylindrical' in ci.name
    subs = [n for n in ast.walk(fn) if isinstance(n, ast.Subscript) and norm(n.value).endswith('voxel_map_mv') and isinstance(n.slice, ast.Tuple)]
    run.subject('C10-R3')
    want = ['ir', 'iphi', 'iz'] if cyl else ['ix', 'iy', 'iz']
    if len(subs) == 1 and [norm(e) for e in subs[0].slice.elts] == want:
        run.ok('C10-R3', '%s.%s subscript order' % (ci.name, fn.name), 'voxel_map[%s]' % ', '.join(want))
    else:
        run.fail('C10-R3', K + 'subscript-order', ci.mod.relpath, fn.lineno,
                 '%s.%s reads voxel_map[%s]; the grid axes are (%s)' % (ci.name, fn.name, [norm(e) for s in subs for e in s.slice.elts], ', '.join(want)))
    P = '' if in_loop else 'point.'
    S = (lambda k: k) if in_loop else (lambda k: 'self._' + k)
    if cyl:
        forms = {'iz': "__cast__('int', %sz / %s)" % (P, S('dz')), 'ir': "__cast__('int', (r - %s) / %s)" % (S('rmin'), S('dr')),
                 'r': 'sqrt(%sx * %sx + %sy * %sy)' % (P, P, P, P)}
        phi = ['180.0 / pi * atan2(%sy, %sx)' % (P, P), '(phi + 360.0) %% %s' % S('period') if in_loop else '(phi + 360) %% %s' % S('period')]
        iphi = ['0', "__cast__('int', phi / %s)" % S('dphi')]
    else:
        forms = {'ix': "__cast__('int', %sx / %s)" % (P, S('dx')), 'iy': "__cast__('int', %sy / %s)" % (P, S('dy')), 'iz': "__cast__('int', %sz / %s)" % (P, S('dz'))}
    for k, w in forms.items():
        run.subject('C10-R3')
        got = [d for d in defs.get(k, []) if d != '-1']
        if got == [w]:
            run.ok('C10-R3', '%s.%s %s' % (ci.name, fn.name, k), w, sample=False)
        else:
            run.fail('C10-R3', K + 'index:' + k, ci.mod.relpath, fn.lineno, '%s.%s computes %s = %s; documented: %s' % (ci.name, fn.name, k, got, w))
    if cyl:
        run.subject('C10-R3')
        gp = defs.get('phi', [])
        gi = defs.get('iphi', [])
        okp = len(gp) == 2 and gp[0] == phi[0] and re.sub(r'360(\.0)?', '360', gp[1]) == re.sub(r'360(\.0)?', '360', phi[1]) and sorted(g for g in gi if g != '-1') == sorted(iphi)
        # the constant index 0 is used exactly for the single-sector (axisymmetric) grid
        zero = [st for t, v, st in stores(fn) if isinstance(t, ast.Name) and t.id == 'iphi' and norm(v) == '0']
        for st in zero:
            fz = facts(guards_of(fn, st) or [])
            if not any(a[1] == '==' and a[2] == '1' for a in fz):
                okp = False
        if okp:
            run.ok('C10-R3', '%s.%s phi index' % (ci.name, fn.name), 'phi = (deg(atan2(y, x)) + 360) % period ; iphi = int(phi / dphi) ; single sector -> 0')
        else:
            run.fail('C10-R3', K + 'index:iphi', ci.mod.relpath, fn.lineno,
                     '%s.%s computes phi = %s, iphi = %s: the toroidal angle is not reduced modulo the period before indexing' % (ci.name, fn.name, gp, gi))


def _block_of(root, node):
    for n in ast.walk(root):
        for f in ('body', 'orelse'):
            b = getattr(n, f, None)
            if isinstance(b, list) and node in b:
                return b
    return None


def _emitter(run, ci):
    fn = ci.methods.get('emission_function')
    if fn is None:
        raise AnalysisError('anchored method vanished: %s.emission_function' % ci.name)
    run.functions += 1
    K = '%s|%s|emission_function|' % (M, ci.name)
    sp = fn.args.args[3].arg
    for st in _spec_stores(fn, sp):
        run.subject('C10-R1')
        idx = norm(st.target.slice)
        f = facts(guards_of(fn, st) or [])
        if (idx, '>=', '0') in f or (idx, '>', '-1') in f:
            run.ok('C10-R1', '%s store at %s' % (ci.name, idx), '%s >= 0' % idx)
        else:
            run.fail('C10-R1', K + 'unguarded-store:' + idx, ci.mod.relpath, st.lineno, '%s.emission_function adds to the spectrum for a masked-out cell' % ci.name)
    defs = {}
    for t, v, s in stores(fn):
        if isinstance(s, ast.Assign):
            defs.setdefault(norm(t), []).append(norm(v))
    _indices(run, ci, fn, K, defs, in_loop=False)
    # steps taken from the matching grid axis
    init = ci.methods.get('__init__')
    # decided on the values the constructor leaves in the fields (straight-line evaluation: a field read back after it was stored is its value)
    from ..algebra import SymEval as _SE, run_block as _rb, L as _L
    ev_ = _SE()
    flat = [st for st in init.body if not isinstance(st, (ast.If, ast.Raise, ast.Expr))]
    try:
        _rb(ev_, flat, [])
    except Exception:
        pass
    names = ['_dr', '_dphi', '_dz'] if 'Cylindrical' in ci.name else ['_dx', '_dy', '_dz']
    run.subject('C10-R3')
    got = {n: ev_.env.get('self.' + n) for n in names}
    step = lambda k: ev_.ev(ast.parse('self._grid_steps[%d]' % k, mode='eval').body)
    if all(got[n] is not None and got[n].eq(step(k)) for k, n in enumerate(names)):
        run.ok('C10-R3', ci.name + ' steps', '%s = grid_steps[0..2]' % names)
    elif any(got[n] is None for n in names):
        run.undecided('C10-R3', ci.name + ' steps', 'fields %s not assigned at the top level of __init__' % [n for n in names if got[n] is None])
    else:
        run.fail('C10-R3', '%s|%s|__init__|steps' % (M, ci.name), ci.mod.relpath, init.lineno,
                 '%s takes its steps as %s' % (ci.name, {n: got[n].key() for n in names}))
    if 'Cylindrical' in ci.name:
        run.subject('C10-R3')
        per = ev_.env.get('self._period')
        want = ev_.ev(ast.parse('self._grid_shape[1]', mode='eval').body) * step(1)
        if per is not None and per.eq(want):
            run.ok('C10-R3', 'period', 'n_phi * d_phi')
        elif per is None or any(l.startswith('?') for l in per.leaves()):
            run.undecided('C10-R3', 'period', 'value stored in _period not interpreted')
        else:
            run.fail('C10-R3', '%s|%s|__init__|period' % (M, ci.name), ci.mod.relpath, init.lineno, 'period = %s' % per.key())


def _siblings(run, ints):
    run.describe('C10-R4', 'integrators identical modulo the index block; bins = max + 1 in both setters; masked-out cells -> -1')

    def skeleton(ci):
        fn = ci.methods['integrate']
        out = []
        for line in ast.unparse(fn).splitlines():
            l = line.strip()
            if re.match(r"^\w+: '[^']*'$", l) or l.startswith(('def ', '@')):
                continue
            if re.match(r'^(i[rxyz]|iphi|r|phi|nphi|d[rxyz]|dphi|period|rmin)(_current)? = ', l) or l.startswith(('if nphi', 'else:')) and 'nphi' in l:
                continue
            l = re.sub(r'\bi(r|x)\b', 'iA', l)
            l = re.sub(r'\bi(phi|y)\b', 'iB', l)
            l = re.sub(r'\bi(r|x)_current\b', 'iA_current', l)
            l = re.sub(r'\bi(phi|y)_current\b', 'iB_current', l)
            l = re.sub(r'Cylindrical|Cartesian', 'X', l)
            if l.startswith('raise '):
                l = 'raise ' + l[6:].split('(')[0]      # message text is not behaviour
            out.append(l)
        return [l for l in out if l not in ('else:',) and not l.startswith('if nphi')]
    a, b = skeleton(ints[0]), skeleton(ints[1])
    run.subject('C10-R4')
    if a == b:
        run.ok('C10-R4', 'integrator skeletons', '%d statements identical outside the coordinate-to-index block' % len(a))
    else:
        diff = [(x, y) for x, y in zip(a, b) if x != y][:2] or [(len(a), len(b))]
        # a textual difference is not by itself a behavioural one (R1-R3 decide each integrator on its own): report as undecided
        run.undecided('C10-R4', 'integrator skeletons', 'the two integrators differ outside the coordinate-to-index block: %s' % (diff,))


def _maps(run, ci):
    K = '%s|RayTransferEmitter|' % M
    for name in ('voxel_map', 'mask'):
        st = ci.setters.get(name)
        run.subject('C10-R4')
        d = {norm(t): norm(v) for t, v, s in stores(st) if isinstance(s, ast.Assign)} if st is not None else {}
        if d.get('self._bins') == 'self._voxel_map.max() + 1' and d.get('self.voxel_map_mv') == 'self._voxel_map':
            run.ok('C10-R4', name + ' setter', 'bins = voxel_map.max() + 1; memoryview refreshed')
        else:
            run.fail('C10-R4', K + 'setter:%s|bins' % name, ci.mod.relpath, (st or ci.node).lineno,
                     "%s setter sets bins = %s and view = %s: the spectrum has too few bins for the highest source or the integrators read a stale map"
                     % (name, d.get('self._bins'), d.get('self.voxel_map_mv')))
    fn = ci.methods.get('_map_from_mask')
    run.subject('C10-R4')
    d = {norm(t): norm(v) for t, v, s in stores(fn) if isinstance(s, ast.Assign)} if fn is not None else {}
    if d.get('voxel_map') == '-1 * np.ones(mask.shape, dtype=np.int32)' and d.get('voxel_map[mask]') == 'np.arange(mask.sum(), dtype=np.int32)':
        run.ok('C10-R4', '_map_from_mask', '-1 everywhere, 0..n-1 on the mask')
    else:
        run.fail('C10-R4', K + '_map_from_mask|form', ci.mod.relpath, (fn or ci.node).lineno, '_map_from_mask builds %s' % d)
    vs = ci.setters.get('voxel_map')
    run.subject('C10-R4')
    if vs is not None and any(isinstance(n, ast.If) and 'value.shape != self.grid_shape' in norm(n.test) and any(isinstance(s, ast.Raise) for s in n.body) for n in ast.walk(vs)):
        run.ok('C10-R4', 'voxel_map shape check', 'shape must equal grid_shape', sample=False)
    else:
        run.fail('C10-R4', K + 'setter:voxel_map|shape', ci.mod.relpath, ci.node.lineno, 'voxel_map setter accepts maps whose shape differs from the grid')


MUTANTS = [
    dict(name='voxel-map-not-copied', file=FILE, find="        self._voxel_map = value.astype(np.int32)", replace="        self._voxel_map = np.ascontiguousarray(value, dtype=np.int32)", expect='C10-R6'),
    dict(name='pipeline0d-matrix-kept-when-size-unchanged', file=PIPES, find="        self._bins = spectral_bins\n        self._matrix = np.zeros(spectral_bins)\n", replace="        self._bins = spectral_bins\n        if self._matrix is None or self._matrix.shape != (spectral_bins,):\n            self._matrix = np.zeros(spectral_bins)\n", expect='C10-R5'),
    dict(name='pipeline0d-sample-count-not-reset', file=PIPES, find="        self._samples = 0\n        self._bins = spectral_bins", replace="        self._bins = spectral_bins", expect='C10-R5'),
    dict(name='guard-removed', file=FILE, find="        if isource_current > -1:\n            spectrum.samples_mv[isource_current] += res\n\n        return spectrum", replace="        spectrum.samples_mv[isource_current] += res\n\n        return spectrum", occurrence=0, of=2, expect='C10-R'),
    dict(name='final-flush-removed', file=FILE, find="        if isource_current > -1:\n            spectrum.samples_mv[isource_current] += res\n\n        return spectrum", replace="        return spectrum", occurrence=1, of=2, expect='C10-R2'),
    dict(name='reset-before-flush', file=FILE, find="                    if isource_current > -1:\n                        spectrum.samples_mv[isource_current] += res  # writing results for the current source\n                    isource_current = isource\n                    res = 0",
         replace="                    res = 0\n                    if isource_current > -1:\n                        spectrum.samples_mv[isource_current] += res  # writing results for the current source\n                    isource_current = isource", occurrence=0, of=2, expect='C10-R2'),
    dict(name='subscript-order', file=FILE, find="isource = voxel_map_mv[ir, iphi, iz]", replace="isource = voxel_map_mv[iz, iphi, ir]", expect='C10-R3'),
    dict(name='period-not-applied', file=FILE, find="                phi = (phi + 360.) % period", replace="                phi = (phi + 360.)", expect='C10-R3'),
    dict(name='bins-max-without-plus-one', file=FILE, find="        self._bins = self._voxel_map.max() + 1", replace="        self._bins = self._voxel_map.max()", occurrence=1, of=2, expect='C10-R4'),
    dict(name='accumulate-only-on-cell-change', file=FILE, find="            if isource_current > -1:\n                res += dt\n", replace="                if isource_current > -1:\n                    res += dt\n", occurrence=1, of=2, expect='C10-R'),
    dict(name='emitter-unguarded', file=FILE, find="        if isource < 0:  # grid cell is not mapped to any light source\n            return spectrum\n", replace="", occurrence=0, of=2, expect='C10-R1'),
    dict(name='mask-fill-zero', file=FILE, find="voxel_map = -1 * np.ones(mask.shape, dtype=np.int32)", replace="voxel_map = np.zeros(mask.shape, dtype=np.int32)", expect='C10-R4'),
    dict(name='dt-from-step', file=FILE, find="        dt = length / n  # integration step\n", replace="        dt = self._step\n", occurrence=0, of=2, expect='C10-R2'),
    dict(name='radial-index-ignores-rmin', file=FILE, find="            ir = <int>((r - rmin) / dr)", replace="            ir = <int>(r / dr)", expect='C10-R3'),
]
TWINS = [
    dict(name='switch-and-reset-swapped', file=FILE, find="                    isource_current = isource\n                    res = 0", replace="                    res = 0\n                    isource_current = isource", occurrence=0, of=2),
    dict(name='guard-written-as-ge-0', file=FILE, find="        if isource_current > -1:\n            spectrum.samples_mv[isource_current] += res\n\n        return spectrum", replace="        if isource_current >= 0:\n            spectrum.samples_mv[isource_current] += res\n\n        return spectrum", occurrence=0, of=2),
]
