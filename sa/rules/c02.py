"""C02 -- line shapes are normalised (DESIGN section 5, C02)."""
import ast
from fractions import Fraction

from ..program import Program, dotted, norm
from ..report import AnalysisError
from ..flow import guards_of, facts
from ..algebra import SymEval, C, L, Rat, run_block
from ..pathinterp import PathInterp, NZ

LS = 'cherab/core/model/lineshape/'
FILES = [LS + 'gaussian.pyx', LS + 'multiplet.pyx', LS + 'zeeman.pyx', LS + 'stark.pyx', LS + 'doppler.pyx', LS + 'beam/mse.pyx',
         'cherab/core/atomic/zeeman.pyx', 'cherab/core/math/integrators/integrators1d.pyx']
SINKS = ('add_gaussian_line', 'add_lorentzian_line')
PI, SIGMA, NO = 0, 1, 2
POLNAME = {PI: 'pi', SIGMA: 'sigma', NO: 'no'}
HALF, QUARTER = Fraction(1, 2), Fraction(1, 4)


class LsEval(SymEval):
    """method calls -> opaque leaves spelled with their normalised receiver; locals inlined"""

    def call(self, n):
        f = n.func
        if isinstance(f, ast.Attribute):
            recv = self.ev(f.value).key() if isinstance(f.value, (ast.Name, ast.Attribute, ast.Call)) else norm(f.value)
            return L('%s.%s(%s)' % (recv, f.attr, ', '.join(self.ev(a).key() for a in n.args)))
        return super().call(n)


def check(run):
    prog = Program()
    prog.load_many(FILES)
    for f in FILES:
        run.use_file(f)
    run.explanation = (
        'Decides structural necessary conditions of C02 for the seven line shapes and the two primitives by finite-guard partial '
        'evaluation (polarisation in {pi, sigma, no} x {B = 0, B != 0}, every other condition enumerated as an oracle decision) '
        'and exact rational algebra: (R1) a line with no width adds nothing -- no primitive is called on paths where the species '
        'temperature (and for Stark also the electron broadening) is non-positive, and the primitives return the spectrum '
        'untouched for width <= 0 before any store; (R2) the calls made under "no" are exactly the calls under "pi" plus the '
        'calls under "sigma" with radiance coefficients added per identical (primitive, wavelength, width): bin-by-bin additivity '
        'for all inputs, because the same primitive receives the same arguments; (R3) the coefficients under "no" sum to exactly '
        'the supplied radiance (sin^2 := 1 - cos^2; multiplet loops contribute coefficient * sum of ratios with the ratios '
        'normalised at their source; Stark weights lorentz + gauss = 1; the nine MSE components sum to the radiance as a rational '
        'identity); pi share 1/2 sin^2, each sigma share 1/4 sin^2 + 1/2 cos^2; (R4) both primitives clip the window identically; '
        '(R5) the Gaussian primitive adds radiance * (erf(A(i+1)) - erf(A(i))) / (2 delta) to bin i with A(k) = (min + delta k - '
        'lambda0) / (sqrt2 sigma), recognised through the loop-carried recurrence, and the Lorentzian primitive adds radiance * '
        'integral over consecutive bin edges / delta. Does not decide the quadrature of the Stark profile, the +-10 sigma / '
        '+-50 FWHM truncation, or the hyp2f1 normalisation constant.')
    run.assumptions = ['erf is the error function; Gauss quadrature integrates the Stark profile over a bin',
                       'thermal_broadening / doppler_shift are the same pure helpers for every component']
    classes = {c.name: c for c in prog.classes.values()}
    for n in ('GaussianLine', 'MultipletLineShape', 'ZeemanTriplet', 'ParametrisedZeemanTriplet', 'ZeemanMultiplet',
              'StarkBroadenedLine', 'BeamEmissionMultiplet', 'ZeemanStructure'):
        if n not in classes:
            raise AnalysisError('anchored class vanished: %s' % n)
    gmod = prog.modules['cherab.core.model.lineshape.gaussian']
    smod = prog.modules['cherab.core.model.lineshape.stark']
    if 'add_gaussian_line' not in gmod.functions or 'add_lorentzian_line' not in smod.functions:
        raise AnalysisError('anchored primitive vanished')
    results = {}
    for cname in ('GaussianLine', 'MultipletLineShape', 'ZeemanTriplet', 'ParametrisedZeemanTriplet', 'ZeemanMultiplet',
                  'StarkBroadenedLine', 'BeamEmissionMultiplet'):
        ci = classes[cname]
        fn = ci.methods.get('add_line')
        if fn is None:
            raise AnalysisError('anchored method vanished: %s.add_line' % cname)
        run.functions += 1
        polar = any(isinstance(n, ast.Attribute) and n.attr == '_polarisation' for n in ast.walk(fn))
        vals = [(p, b) for p in (PI, SIGMA, NO) for b in (0, NZ)] if polar else [(NO, NZ)]
        res = {}
        for p, b in vals:
            pi = PathInterp(fn, SINKS, {'self._polarisation': p, 'b_magn': b}, evaluator=LsEval, inline=_helpers(prog, ci))
            paths = pi.run()
            for path in paths:
                path.env = None
            res[(p, b)] = paths
        results[cname] = (ci, fn, polar, res)
    _r1(run, results, gmod, smod)
    _r2(run, results)
    _r3(run, results, classes)
    _r3c(run, prog, classes)
    _r8_doppler(run, prog)
    _r45(run, gmod, smod)
    _r6(run, prog)
    _r7(run, classes)
    from ..cachekey import check_caches
    check_caches(run, [m_ for m_ in prog.modules.values() if m_.relpath in set(FILES) and not m_.name.endswith('#pxd')], 'C02-K', prog=prog)


def _helpers(prog, ci):
    """Private helpers a line shape may delegate its primitive calls to: module-level functions of the class's module and
    methods of the class whose bodies (transitively) reach a primitive.  They are interpreted in place."""
    cands = {}
    for name, fn in ci.mod.functions.items():
        if name not in SINKS:
            cands[name] = fn
    for k in prog.mro(ci):
        for name, fn in k.methods.items():
            if name != 'add_line':
                cands.setdefault('self.' + name, fn)
    reach = set()
    changed = True
    while changed:
        changed = False
        for name, fn in cands.items():
            if name in reach:
                continue
            for c in ast.walk(fn):
                if isinstance(c, ast.Call) and (dotted(c.func) in SINKS or dotted(c.func) in reach):
                    reach.add(name)
                    changed = True
                    break
    return {n: cands[n] for n in reach}


def _is_null_path(path):
    d = path.key()
    if d.get('ts <= 0.0') or d.get('ts <= 0'):
        return True
    # the Stark model's own definition of "no width": both widths vanish (by their guards or by the model's own test)
    lorentz_zero = d.get('fwhm_lorentz == 0') is True or d.get('ne > 0') is False or d.get('te > 0') is False
    gauss_zero = d.get('fwhm_gauss == 0') is True or d.get('ts > 0') is False
    if lorentz_zero and gauss_zero:
        return True
    return False


def _r1(run, results, gmod, smod):
    run.describe('C02-R1', 'no primitive is called when the line has no width; primitives return the untouched spectrum for width <= 0')
    for cname, (ci, fn, polar, res) in sorted(results.items()):
        if cname == 'BeamEmissionMultiplet':
            continue
        K = '%s|%s|add_line|' % (ci.mod.name, cname)
        sp = fn.args.args[-1].arg
        nulls = 0
        for key, paths in res.items():
            for p in paths:
                if _is_null_path(p):
                    nulls += 1
                    run.subject('C02-R1')
                    if p.sinks:
                        run.fail('C02-R1', K + 'zero-width-adds', ci.mod.relpath, p.sinks[0][3].lineno,
                                 '%s.add_line (%s, B %s) still calls %s when %s: a line with no width adds to the spectrum'
                                 % (cname, POLNAME[key[0]], key[1], p.sinks[0][0], {k: v for k, v in p.decisions}))
                    elif p.returned is None or p.returned.key() != sp:
                        run.fail('C02-R1', K + 'zero-width-return', ci.mod.relpath, fn.lineno,
                                 '%s.add_line returns %s instead of the unchanged spectrum for a line with no width' % (cname, p.returned))
                    else:
                        run.ok('C02-R1', '%s %s B=%s no width' % (cname, POLNAME[key[0]], key[1]), dict(p.decisions), sample=(nulls == 1))
        if not nulls:
            run.subject('C02-R1')
            run.fail('C02-R1', K + 'no-zero-width-path', ci.mod.relpath, fn.lineno,
                     '%s.add_line has no path that returns early for a non-positive species temperature' % cname)
    for mod, fname in ((gmod, 'add_gaussian_line'), (smod, 'add_lorentzian_line')):
        fn = mod.functions[fname]
        width = fn.args.args[2].arg
        sp = fn.args.args[3].arg
        stores = [st for st in ast.walk(fn) if isinstance(st, ast.AugAssign) and norm(st.target).startswith(sp + '.samples')]
        run.subject('C02-R1')
        if not stores:
            run.fail('C02-R1', '%s|%s|no-store' % (mod.name, fname), mod.relpath, fn.lineno, '%s never adds to the spectrum' % fname)
            continue
        bad = [st for st in stores if (width, '>', '0') not in facts(guards_of(fn, st) or [])]
        guard_ok = any(isinstance(n, ast.If) and norm(n.test) in ('%s <= 0' % width, '%s <= 0.0' % width)
                       and len(n.body) == 1 and isinstance(n.body[0], ast.Return) and norm(n.body[0].value) == sp for n in fn.body)
        if not bad and guard_ok:
            run.ok('C02-R1', fname + ' width guard', '%s <= 0 -> return spectrum dominates %d stores' % (width, len(stores)))
        else:
            run.fail('C02-R1', '%s|%s|width-guard' % (mod.name, fname), mod.relpath, (bad[0] if bad else fn).lineno,
                     "%s adds to the spectrum without first returning it unchanged for %s <= 0" % (fname, width))
    run.floor('C02-R1', 8)


def _callsig(s):
    name, args, tags, node = s
    rest = tuple(a.key() for a in args[1:3]) + (tags,)
    return (name,) + rest


def _group(sinks):
    out = {}
    for s in sinks:
        k = _callsig(s)
        out[k] = out.get(k, C(0)) + s[1][0]
    return out


def _r2(run, results):
    run.describe('C02-R2', 'calls(no) == calls(pi) + calls(sigma), coefficients added per identical (primitive, wavelength, width)')
    for cname, (ci, fn, polar, res) in sorted(results.items()):
        if not polar:
            continue
        K = '%s|%s|add_line|' % (ci.mod.name, cname)
        for b in (0, NZ):
            for pn in res[(NO, b)]:
                if _is_null_path(pn):
                    continue
                run.subject('C02-R2')
                cp = [p for p in res[(PI, b)] if pn.compatible(p) and p.compatible(pn)]
                cs = [p for p in res[(SIGMA, b)] if pn.compatible(p) and p.compatible(pn)]
                tag = '%s B%s %s' % (cname, '=0' if b == 0 else '!=0', {k: v for k, v in pn.decisions})
                if len(cp) != 1 or len(cs) != 1:
                    run.undecided('C02-R2', tag, 'paths do not correspond one to one across polarisation modes (%d, %d)' % (len(cp), len(cs)))
                    continue
                gn, gp, gs = _group(pn.sinks), _group(cp[0].sinks), _group(cs[0].sinks)
                keys = set(gn) | set(gp) | set(gs)
                bad = [k for k in keys if not gn.get(k, C(0)).eq(gp.get(k, C(0)) + gs.get(k, C(0)))]
                if not bad:
                    run.ok('C02-R2', tag, '%d component groups: no = pi + sigma' % len(keys), sample=(b == NZ and cname == 'ZeemanTriplet'))
                else:
                    k = sorted(bad, key=str)[0]
                    run.fail('C02-R2', K + 'partition|B%s' % ('0' if b == 0 else 'nz'), ci.mod.relpath, fn.lineno,
                             "%s (B %s): the component %s(wavelength=%s, width=%s) gets %s under 'no' but %s under 'pi' plus %s under 'sigma': "
                             "pi + sigma do not add up to the unpolarised spectrum" % (
                                 cname, '= 0' if b == 0 else '!= 0', k[0], k[1][:60], k[2][:40], gn.get(k, C(0)), gp.get(k, C(0)), gs.get(k, C(0))))
    run.floor('C02-R2', 8)


def _loop_ratio_leaf(coeff, tags):
    """For a sink inside a symbolic loop: the ratio leaf (row 1 of a multiplet table indexed by the loop variable)."""
    cands = [l for l in coeff.leaves() if '[1,' in l and l.endswith(']')]
    return cands[0] if len(cands) == 1 else None


def _total(path):
    tot = C(0)
    notes = []
    for name, args, tags, node in path.sinks:
        c = args[0]
        if tags:
            leaf = _loop_ratio_leaf(c, tags)
            if leaf is None:
                return None, 'multiplet component radiance is not proportional to the ratio row of its table: %s' % c.key()[:80]
            # wavelength must come from row 0 of the same table at the same index
            w = args[1].key()
            if leaf.replace('[1,', '[0,') not in w:
                return None, 'ratio %s is not paired with the wavelength of the same multiplet row: %s' % (leaf, w[:80])
            c = c.subst({leaf: C(1)})
            notes.append(leaf)
        tot = tot + c
    return tot, notes


def _r3(run, results, classes):
    run.describe('C02-R3', "coefficients under 'no' sum to the radiance; pi share 1/2 sin^2, each sigma share 1/4 sin^2 + 1/2 cos^2; ratios normalised at source")
    for cname, (ci, fn, polar, res) in sorted(results.items()):
        K = '%s|%s|add_line|' % (ci.mod.name, cname)
        rad = L(fn.args.args[1].arg)
        for (p, b), paths in sorted(res.items(), key=str):
            for path in paths:
                if _is_null_path(path) or (path.returned is not None and path.returned.key() == 'raise'):
                    continue
                if cname == 'BeamEmissionMultiplet' and (path.key().get('te <= 0.0') or path.key().get('ne <= 0.0')):
                    continue
                tot, notes = _total(path)
                tag = '%s %s B%s' % (cname, POLNAME[p], '=0' if b == 0 else '!=0')
                if tot is None:
                    if 'ratio' in notes:
                        run.subject('C02-R3')
                        run.fail('C02-R3', K + 'multiplet-ratio|%s' % POLNAME[p], ci.mod.relpath, fn.lineno, '%s: %s' % (tag, notes))
                    else:
                        run.undecided('C02-R3', tag, notes)
                    continue
                # a component that carries a share of the radiance must be given a width: the primitives add nothing for width 0
                for sname, sargs, stags, snode in path.sinks:
                    if len(sargs) >= 3 and sargs[2].is_const() and sargs[2].const_value() == 0 \
                            and not (sargs[0].is_const() and sargs[0].const_value() == 0):
                        run.subject('C02-R3')
                        run.fail('C02-R3', K + 'zero-width-share|%s' % sname, ci.mod.relpath, snode.lineno,
                                 "%s: %s is given the share %s of the radiance but a width that is identically zero on the path %s: the "
                                 "primitive returns at once and that share of the line is lost"
                                 % (tag, sname, sargs[0].key()[:60], {k: v for k, v in path.decisions}))
                # cos^2 leaf of this path (if any)
                cosl = [l for l in tot.leaves() if '.dot(' in l]
                cos2 = None
                for s in path.sinks:
                    pass
                run.subject('C02-R3')
                if p == NO:
                    want = rad
                    what = 'the whole radiance'
                elif b == 0:
                    want = rad * C(HALF)
                    what = 'half the radiance (no field: pi and sigma indistinguishable)'
                else:
                    # shares in terms of the path's own cos^2 expression: total(no) - other share; checked through identities below
                    want = None
                if want is not None:
                    if tot.eq(want):
                        run.ok('C02-R3', tag + ' total', '%s%s' % (what, ' (sum of ratios = 1 for %s)' % sorted(set(notes)) if notes else ''))
                    else:
                        run.fail('C02-R3', K + 'total|%s|B%s' % (POLNAME[p], '0' if b == 0 else 'nz'), ci.mod.relpath, fn.lineno,
                                 "%s: the radiance coefficients sum to %s, expected %s" % (tag, tot.key()[:200], what))
                else:
                    # B != 0, polarised: total must be k * radiance with k = 1/2 sin^2 (pi) or 1/2 sin^2 + cos^2 (sigma),  sin^2 = 1 - cos^2
                    k = tot / rad
                    leaves = sorted(k.leaves())
                    okk = False
                    detail = k.key()[:160]
                    if len(leaves) >= 1:
                        for cl in leaves:
                            c2 = L(cl)
                            # cos_sqr may be the square of a leaf (b.dot(d)/|B|)^2
                            for cos_sqr in (c2, c2 * c2):
                                sin_sqr = C(1) - cos_sqr
                                wantk = C(HALF) * sin_sqr if p == PI else (C(HALF) * sin_sqr + cos_sqr)
                                if k.eq(wantk):
                                    okk = True
                    # cos^2 = (dot/|B|)^2 is a rational expression of two leaves
                    if not okk:
                        n_no = [pp for pp in res[(NO, b)] if pp.compatible(path) and path.compatible(pp)]
                        n_ot = [pp for pp in res[(SIGMA if p == PI else PI, b)] if pp.compatible(path) and path.compatible(pp)]
                        if len(n_no) == 1 and len(n_ot) == 1:
                            t_no, _ = _total(n_no[0])
                            t_ot, _ = _total(n_ot[0])
                            if t_no is not None and t_ot is not None and t_no.eq(rad):
                                # with total(no) = radiance, pi share = 1/2 sin^2 <=> sigma share - pi share = cos^2 * radiance ... use both:
                                kp = (tot if p == PI else t_ot) / rad
                                ks = (t_ot if p == PI else tot) / rad
                                cos_sqr = ks - kp                       # = cos^2 when the shares are the documented ones
                                okk = kp.eq(C(HALF) * (C(1) - cos_sqr)) and ks.eq(C(HALF) * (C(1) - cos_sqr) + cos_sqr) and (kp + ks).eq(C(1))
                                # cos_sqr must be the square written in the source: (b.dot(d)/|B|)^2
                                okk = okk and any('.dot(' in l for l in cos_sqr.leaves())
                                okk = okk and (cos_sqr.n.is_const() is False)
                    if okk:
                        run.ok('C02-R3', tag + ' share', '1/2 sin^2' if p == PI else '2 x (1/4 sin^2 + 1/2 cos^2)')
                    else:
                        run.fail('C02-R3', K + 'share|%s' % POLNAME[p], ci.mod.relpath, fn.lineno,
                                 "%s: the %s components carry %s of the radiance; documented: %s with sin^2 = 1 - cos^2"
                                 % (tag, POLNAME[p], detail, '1/2 sin^2' if p == PI else '1/2 sin^2 + cos^2 (two sigma components of 1/4 sin^2 + 1/2 cos^2)'))
                # sigma components come in equal pairs
                if p == SIGMA and b == NZ:
                    run.subject('C02-R3')
                    groups = {}
                    for s in path.sinks:
                        groups.setdefault((s[0], s[1][2].key(), s[2]), []).append(s[1][0])
                    uneven = [k2 for k2, v in groups.items() if len(v) % 2 or any(not v[i].subst({l: C(1) for l in v[i].leaves() if '[1,' in l}).eq(
                        v[i + 1].subst({l: C(1) for l in v[i + 1].leaves() if '[1,' in l})) for i in range(0, len(v) - 1, 2))]
                    if not uneven:
                        run.ok('C02-R3', tag + ' sigma+ / sigma- equal', '%d pairs' % sum(len(v) // 2 for v in groups.values()), sample=False)
                    else:
                        run.fail('C02-R3', K + 'sigma-pair', ci.mod.relpath, fn.lineno, '%s: sigma+ and sigma- components do not carry equal radiance' % tag)
    # ratios normalised at their source
    zs = classes['ZeemanStructure']
    evm = zs.methods.get('evaluate')
    run.subject('C02-R3')
    ok = False
    loops = [l for l in ast.walk(evm) if isinstance(l, ast.For)]
    acc = [st for l in loops for st in l.body if isinstance(st, ast.AugAssign) and isinstance(st.op, ast.Add) and norm(st.target) == 'ratio_sum']
    div = [st for l in loops for st in l.body if isinstance(st, ast.AugAssign) and isinstance(st.op, ast.Div) and norm(st.value) == 'ratio_sum']
    if acc and div and norm(acc[0].value) == norm(div[0].target) and '[1,' in norm(div[0].target).replace(' ', ''):
        f = facts(guards_of(evm, div[0]) or [])
        ok = ('ratio_sum', '>', '0') in f
    if ok:
        run.ok('C02-R3', 'ZeemanStructure ratios', 'every ratio divided by the sum just accumulated')
    else:
        run.fail('C02-R3', '%s|ZeemanStructure|evaluate|normalisation' % zs.mod.name, zs.mod.relpath, evm.lineno,
                 'ZeemanStructure.evaluate does not divide every component ratio by their accumulated sum: multiplet shares do not add up to one')
    # the component groups may be any iterable (the constructor walks them once): a second traversal finds a one-shot iterable empty
    zinit = zs.methods.get('__init__')
    if zinit is not None:
        from ._purity import traversed_more_than_once
        from ..inline import flatten, module_lookup
        try:
            zf = flatten(zinit, module_lookup(zs.mod))
        except Exception:
            zf = zinit
        zparams = [a.arg for a in zinit.args.args[1:]]
        twice = {}
        for f_ in [zf] + [g_ for g_ in dict.values(zs.mod.functions) if any(isinstance(c_, ast.Call) and dotted(c_.func) == g_.name for c_ in ast.walk(zinit))]:
            twice.update(traversed_more_than_once(f_))
        run.subject('C02-R3')
        if twice:
            nm = sorted(twice)[0]
            run.fail('C02-R3', '%s|ZeemanStructure|__init__|traversed-twice' % zs.mod.name, zs.mod.relpath, twice[nm][1].lineno,
                     "ZeemanStructure walks the component group '%s' more than once (validation, then wrapping): given a one-shot iterable (zip "
                     "of wavelength and ratio functions, a generator) the second pass sees nothing, the structure has no components and the "
                     "multiplet adds nothing at B != 0" % nm)
        else:
            run.ok('C02-R3', 'ZeemanStructure component groups', 'each walked once', sample=False)
    ml = classes['MultipletLineShape']
    init = ml.methods.get('__init__')
    run.subject('C02-R3')
    from ..inline import resolver as _resolver
    _res = _resolver(init)

    def _rejects_unnormalised(n):
        """an If whose body raises and whose test says 'the sum of row 1 is not one' (either spelling of the negation)"""
        if not (isinstance(n, ast.If) and any(isinstance(s_, ast.Raise) for s_ in n.body)):
            return False
        for t in (n.test.values if isinstance(n.test, ast.BoolOp) and isinstance(n.test.op, ast.Or) else [n.test]):
            t = _res(t)
            neg = False
            while isinstance(t, ast.UnaryOp) and isinstance(t.op, ast.Not):
                t, neg = t.operand, not neg
            if not (isinstance(t, ast.Compare) and len(t.ops) == 1):
                continue
            differs = (isinstance(t.ops[0], ast.Eq) and neg) or (isinstance(t.ops[0], ast.NotEq) and not neg)
            sides = [t.left, t.comparators[0]]
            one = [x for x in sides if isinstance(x, ast.Constant) and x.value == 1]
            tot = [x for x in sides if not isinstance(x, ast.Constant)]
            if differs and one and tot:
                txt = norm(tot[0]).replace(' ', '')
                if 'sum(' in txt and ('[1,:]' in txt or '[1]' in txt):
                    return True
        return False
    ok = any(_rejects_unnormalised(n) for n in ast.walk(init))
    if ok:
        run.ok('C02-R3', 'MultipletLineShape ratios', 'constructor rejects tables whose ratios do not sum to one')
    else:
        run.fail('C02-R3', '%s|MultipletLineShape|__init__|ratio-check' % ml.mod.name, ml.mod.relpath, init.lineno,
                 'MultipletLineShape accepts multiplet tables whose ratios do not sum to one')
    run.floor('C02-R3', 20)


class PrimEval(SymEval):
    def __init__(self, env=None):
        super().__init__(env)
        self.erf_args = {}

    def call(self, n):
        f = dotted(n.func)
        if f == 'erf' and len(n.args) == 1:
            a = self.ev(n.args[0])
            name = 'erf(%s)' % a.key()
            self.erf_args[name] = a
            return L(name)
        if f in ('floor', 'ceil', 'max', 'min', '__cast__'):
            if f == '__cast__':
                return self.ev(n.args[1])
            return L('%s(%s)' % (f, ', '.join(self.ev(a).key() for a in n.args)))
        return super().call(n)


def _r7(run, classes):
    """The ratios checked by the constructor (sum to one) are the ratios used later: the model keeps its own copy of the multiplet table."""
    from ..flow import copy_kind, stores
    from ..inline import resolver
    run.describe('C02-R7', 'MultipletLineShape keeps a copy of the multiplet table it validated (not the caller\'s array)')
    ci = classes['MultipletLineShape']
    init = ci.methods.get('__init__')
    run.subject('C02-R7')
    if init is None:
        run.undecided('C02-R7', 'MultipletLineShape.__init__', 'constructor not found')
        return
    param = [a.arg for a in init.args.args if 'multiplet' in a.arg]
    res = resolver(init)
    sts = [(t, v, st) for t, v, st in stores(init) if isinstance(t, ast.Attribute) and norm(t) in ('self._multiplet', 'self._multiplet_mv')]
    if not param or not sts:
        run.undecided('C02-R7', 'MultipletLineShape.__init__', 'multiplet parameter / store not recognised')
        return
    kinds = [(copy_kind(res(v), set(param)), st) for t, v, st in sts if norm(v) != 'self._multiplet']
    bad = [st for k, st in kinds if k == 'alias']
    if bad:
        run.fail('C02-R7', '%s|MultipletLineShape|__init__|alias' % ci.mod.name, ci.mod.relpath, bad[0].lineno,
                 "MultipletLineShape stores %s: a float64 array given by the caller is kept as is, so changing it afterwards changes the component ratios of "
                 "the model and they no longer sum to one (the check is only done in the constructor)" % norm(res(bad[0].value))[:70])
    elif kinds and all(k == 'copy' for k, st in kinds):
        run.ok('C02-R7', 'MultipletLineShape table', 'stored as %s' % norm(res(sts[0][1]))[:50])
    else:
        run.undecided('C02-R7', 'MultipletLineShape.__init__', 'conversion not recognised')


def _r8_doppler(run, prog):
    """R8: the two helpers every component shares: doppler_shift = lambda (1 + v . d_hat / c) with the viewing vector normalised (callers pass
    ray directions of any length), thermal_broadening = sqrt(T e / (A m_u)) lambda / c."""
    from ..algebra import SymEval
    from ..inline import flatten, module_lookup
    run.describe('C02-R8', 'doppler_shift = lambda (1 + v . d_hat / c), d_hat the normalised viewing vector; thermal_broadening = sqrt(T e / (A m_u)) lambda / c')
    mi = prog.modules.get('cherab.core.model.lineshape.doppler')
    if mi is None or 'doppler_shift' not in mi.functions or 'thermal_broadening' not in mi.functions:
        raise AnalysisError('anchored function vanished: doppler_shift / thermal_broadening')
    K = mi.name + '|'

    class E(SymEval):
        def call(self, n):
            f = n.func
            if isinstance(f, ast.Attribute) and f.attr == 'normalise' and not n.args:
                v = self.ev(f.value)
                return L('HAT(%s)' % v.key())
            if isinstance(f, ast.Attribute) and f.attr == 'dot' and len(n.args) == 1:
                a, b = self.ev(f.value), self.ev(n.args[0])
                ka, kb = sorted([a.key(), b.key()])
                if ka.startswith('HAT(') or kb.startswith('HAT('):
                    h, o = (ka, kb) if ka.startswith('HAT(') else (kb, ka)
                    return L('DOT(%s,%s)' % tuple(sorted([h[4:-1], o]))) / L('LEN(%s)' % h[4:-1])
                if ka == kb:
                    return L('LEN(%s)' % ka) * L('LEN(%s)' % ka)
                return L('DOT(%s,%s)' % (ka, kb))
            if isinstance(f, ast.Attribute) and f.attr in ('get_length',) and not n.args:
                return L('LEN(%s)' % self.ev(f.value).key())
            return super().call(n)

        def ev(self, n):
            if isinstance(n, ast.Attribute) and n.attr == 'length':
                return L('LEN(%s)' % self.ev(n.value).key())
            return super().ev(n)

    def value(fn):
        try:
            fn = flatten(fn, module_lookup(mi))
        except Exception:
            pass
        e = E()
        for a in fn.args.args:
            e.env[a.arg] = L(a.arg)
        for st in fn.body:
            if isinstance(st, ast.Assign) and len(st.targets) == 1 and isinstance(st.targets[0], ast.Name):
                e.env[st.targets[0].id] = e.ev(st.value)
            elif isinstance(st, ast.Return) and st.value is not None:
                return e.ev(st.value)
            elif isinstance(st, (ast.AnnAssign, ast.Expr)):
                continue
            else:
                return None
        return None
    fn = mi.functions['doppler_shift']
    lam, d, v = [a.arg for a in fn.args.args[:3]]
    run.subject('C02-R8')
    try:
        got = value(fn)
    except Exception:
        got = None
    dv = 'DOT(%s,%s)' % tuple(sorted([d, v]))
    want = L(lam) * (C(1) + L(dv) / L('LEN(%s)' % d) / L('SPEED_OF_LIGHT'))
    if got is None or any(l.startswith('?') for l in got.leaves()):
        run.undecided('C02-R8', 'doppler_shift', 'not a straight-line arithmetic expression')
    elif got.eq(want):
        run.ok('C02-R8', 'doppler_shift', 'lambda (1 + v . d / |d| / c)')
    else:
        run.fail('C02-R8', K + 'doppler_shift', mi.relpath, fn.lineno,
                 'doppler_shift returns %s (DOT: scalar product, LEN: vector length); documented: lambda (1 + v . d / |d| / c) -- the velocity '
                 'projected on the *unit* viewing vector; for a viewing vector whose length is not 1 every component is shifted by the wrong '
                 'amount' % got.key()[:160])
    fn = mi.functions['thermal_broadening']
    lam, T, A = [a.arg for a in fn.args.args[:3]]
    run.subject('C02-R8')
    try:
        got = value(fn)
        want = E().sqrt(L(T) * L('ELEMENTARY_CHARGE') / (L(A) * L('ATOMIC_MASS'))) * L(lam) / L('SPEED_OF_LIGHT')
    except Exception:
        got = None
    if got is None or any(l.startswith('?') for l in got.leaves()):
        run.undecided('C02-R8', 'thermal_broadening', 'not a straight-line arithmetic expression')
    elif got.eq(want):
        run.ok('C02-R8', 'thermal_broadening', 'sqrt(T e / (A m_u)) lambda / c')
    else:
        run.fail('C02-R8', K + 'thermal_broadening', mi.relpath, fn.lineno,
                 'thermal_broadening returns %s; documented: sqrt(T e / (A m_u)) lambda / c' % got.key()[:160])
    run.floor('C02-R8', 2)


def _r3c(run, prog, classes):
    """The pi / sigma shares are stated in terms of the angle between the field and the line of sight: the quantity squared is the cosine,
    B . d / (|B| |d|) -- the field divided by its own length, the viewing vector normalised (callers pass ray directions of any length
    through the public add_line)."""
    run.describe('C02-R3c', 'Zeeman models: cos^2 is (B . d_hat / |B|)^2 with the viewing vector normalised and |B| the length of the same field vector')
    from ..inline import flatten, class_lookup, module_lookup, resolver
    for cname in ('ZeemanTriplet', 'ParametrisedZeemanTriplet', 'ZeemanMultiplet'):
        ci = classes[cname]
        fn0 = ci.methods.get('add_line')
        try:
            fn = flatten(flatten(fn0, class_lookup(prog, ci)), module_lookup(ci.mod, public=True, prog=prog))
        except Exception:
            fn = fn0
        params = [a.arg for a in fn.args.args]
        dname = params[3] if len(params) > 3 else 'direction'
        res = resolver(fn)
        dots = [c for c in ast.walk(fn) if isinstance(c, ast.Call) and isinstance(c.func, ast.Attribute) and c.func.attr == 'dot' and len(c.args) == 1]
        # the dot products between the magnetic field and the viewing vector (either receiver)
        K = '%s|%s|add_line|cos' % (ci.mod.name, cname)
        seen = 0
        for c in dots:
            recv, arg = res(c.func.value), res(c.args[0])
            both = [norm(recv), norm(arg)]
            if not any(dname in b_.replace('.normalise()', '').split('.')[0:1] or b_.startswith(dname) for b_ in both):
                continue
            if not any('b_field' in b_ or 'evaluate(' in b_ for b_ in both):
                continue
            seen += 1
            run.subject('C02-R3c')
            dtxt = [b_ for b_ in both if b_.startswith(dname)][0]
            if dtxt in ('%s.normalise()' % dname,):
                run.ok('C02-R3c', '%s cos' % cname, 'field . %s' % dtxt, sample=False)
            elif dtxt == dname and any(isinstance(x, ast.Attribute) and x.attr in ('length', 'get_length') and norm(x.value) == dname
                                       for x in ast.walk(fn)):
                run.undecided('C02-R3c', '%s cos' % cname, 'the viewing vector is divided by its length elsewhere; not followed')
            elif dtxt == dname:
                run.fail('C02-R3c', K, ci.mod.relpath, c.lineno,
                         "%s.add_line takes the cosine between the field and the viewing vector from %s without normalising '%s': for a "
                         "viewing vector whose length is not 1 the pi and sigma components no longer share the radiance as 1/2 sin^2 : "
                         "(1/2 sin^2 + cos^2)" % (cname, norm(c)[:60], dname))
            else:
                run.undecided('C02-R3c', '%s cos' % cname, 'viewing vector given as %s' % dtxt[:50])
        if not seen:
            run.subject('C02-R3c')
            run.undecided('C02-R3c', '%s cos' % cname, 'no dot product between the field and the viewing vector found')
    run.floor('C02-R3c', 3)


def _r6(run, prog):
    """The quadrature table used for the Stark profile is rebuilt whenever its order range changes."""
    from ..effects import Effects, self_chain
    run.describe('C02-R6', 'GaussianQuadrature: every setter writing a field the node/weight table is built from rebuilds the table, for every change')
    ci = [c for c in prog.classes.values() if c.name == 'GaussianQuadrature']
    if not ci:
        raise AnalysisError('anchored class vanished: GaussianQuadrature')
    ci = ci[0]
    try:
        # a write-and-rebuild helper shared by the setters is read where it is called
        prog.normalise_class(ci, keep=('_build_cache',), propagate=False)
    except Exception:
        pass
    eff = Effects(prog)
    builder = ci.methods.get('_build_cache')
    if builder is None:
        raise AnalysisError('anchored method vanished: GaussianQuadrature._build_cache')
    srcs = {r for r in eff.closure(ci, builder).reads if '.' not in r} - set(eff.closure(ci, builder).writes)
    n = 0
    for name, fn in sorted(ci.setters.items()):
        w = [f for f in eff.summary(fn).writes if f in srcs]
        if not w:
            continue
        n += 1
        run.subject('C02-R6')
        wl = max(st.lineno for f in w for st in eff.summary(fn).writes[f])
        calls = [c for c in ast.walk(fn) if isinstance(c, ast.Call) and dotted(c.func) == 'self._build_cache' and c.lineno > wl]
        K = '%s|GaussianQuadrature|setter:%s|' % (ci.mod.name, name)
        if not calls:
            run.fail('C02-R6', K + 'no-rebuild', ci.mod.relpath, fn.lineno,
                     'GaussianQuadrature.%s writes %s but does not rebuild the node/weight table: evaluate() reads nodes of the wrong orders' % (name, w))
            continue
        g = [(e, pol) for e, pol in (guards_of(fn, calls[0]) or []) if pol != 'in-loop']
        # guards that are merely the setter's validation (early raise) carry polarity False on an exiting test; keep the others
        cond = [(e, pol) for e, pol in g if not _is_validation(fn, e)]
        # a test stored in a local before the write compares the new value with the old field
        resolved = []
        for e, pol in cond:
            if isinstance(e, ast.Name):
                ds = [(v, st) for t, v, st in _stores(fn) if isinstance(t, ast.Name) and t.id == e.id]
                if len(ds) == 1 and ds[0][1].lineno < min(st.lineno for f in w for st in eff.summary(fn).writes[f]):
                    resolved.append((ds[0][0], pol, True))
                    continue
            resolved.append((e, pol, e.lineno < min(st.lineno for f in w for st in eff.summary(fn).writes[f])))
        if not cond:
            run.ok('C02-R6', 'GaussianQuadrature.%s' % name, 'writes %s, then _build_cache() unconditionally' % w)
        elif all(_is_changed_test(e, pol, w) and before for e, pol, before in resolved):
            run.ok('C02-R6', 'GaussianQuadrature.%s' % name, 'rebuilds whenever the value changes')
        elif all(before and _is_growth_test(e, pol, w, fn) and set(w) <= _extent_only(builder) for e, pol, before in resolved):
            run.ok('C02-R6', 'GaussianQuadrature.%s' % name, 'rebuilds whenever the table has to grow (%s only bounds the table from above)' % w)
        else:
            cond = [(e, pol) for e, pol, b in resolved]
            run.fail('C02-R6', K + 'conditional-rebuild', ci.mod.relpath, calls[0].lineno,
                     'GaussianQuadrature.%s rebuilds the node/weight table only when %s: evaluate() walks the table from the current '
                     'min_order, so after the other changes it reads nodes and weights of the wrong orders'
                     % (name, ' and '.join(('' if pol else 'not ') + norm(e) for e, pol in cond)))
    # writer / reader agreement: evaluate() walks the table from offset 0 taking `order` entries for order = lo, lo + 1, ...; the builder must
    # lay the table out for the same sequence of orders (same first order, same last order)
    run.subject('C02-R6')
    evf = ci.methods.get('evaluate')

    def order_loop(fn):
        """(loop, lo text, hi text) of the 'for order in range(lo, hi)' loop that advances an offset by the order"""
        for lp in ast.walk(fn):
            if isinstance(lp, ast.For) and isinstance(lp.target, ast.Name) and isinstance(lp.iter, ast.Call) and dotted(lp.iter.func) == 'range' \
                    and len(lp.iter.args) == 2:
                adv = [st for st in ast.walk(lp) if isinstance(st, ast.AugAssign) and isinstance(st.op, ast.Add) and norm(st.value) == lp.target.id]
                if adv:
                    return lp, norm(lp.iter.args[0]), norm(lp.iter.args[1]), norm(adv[0].target)
        return None
    wl_, rl_ = order_loop(builder), (order_loop(evf) if evf is not None else None)
    if wl_ is None or rl_ is None:
        run.undecided('C02-R6', 'GaussianQuadrature table layout', 'order loops of _build_cache / evaluate not recognised')
    elif (wl_[1], wl_[2]) == (rl_[1], rl_[2]):
        run.ok('C02-R6', 'GaussianQuadrature table layout', 'built and read for order in range(%s, %s), offsets advanced by the order' % (wl_[1], wl_[2]))
    else:
        run.fail('C02-R6', '%s|GaussianQuadrature|table-layout' % ci.mod.name, ci.mod.relpath, wl_[0].lineno,
                 'GaussianQuadrature._build_cache lays the node/weight table out for order in range(%s, %s) but evaluate() reads it from offset 0 for '
                 'order in range(%s, %s): the nodes and weights read for an order belong to another order' % (wl_[1], wl_[2], rl_[1], rl_[2]))
    if n < 2:
        run.subject('C02-R6')
        run.undecided('C02-R6', 'GaussianQuadrature setters', 'only %d setter writes a field the builder reads' % n)


def _stores(fn):
    from ..flow import stores
    return stores(fn)


def _extent_only(builder):
    """Fields that only bound the table from above: they occur in the stop of the builder's range() loops and never in a start."""
    from ..effects import self_chain
    starts, stops = set(), set()
    for lp in ast.walk(builder):
        if isinstance(lp, ast.For) and isinstance(lp.iter, ast.Call) and dotted(lp.iter.func) == 'range':
            a = lp.iter.args
            st, sp = (a[0], a[1]) if len(a) >= 2 else (None, a[0])
            for tgt, e in ((starts, st), (stops, sp)):
                if e is not None:
                    for x in ast.walk(e):
                        if isinstance(x, ast.Attribute) and self_chain(x):
                            tgt.add(self_chain(x))
    return stops - starts


def _is_growth_test(e, pol, fields, fn):
    from ..calls import params_of
    ps = params_of(fn)[1:]
    if isinstance(e, ast.Compare) and len(e.ops) == 1 and pol and ps:
        l, r, op = norm(e.left), norm(e.comparators[0]), type(e.ops[0])
        for f in fields:
            if (l, r) == (ps[0], 'self.' + f) and op in (ast.Gt, ast.NotEq):
                return True
            if (l, r) == ('self.' + f, ps[0]) and op in (ast.Lt, ast.NotEq):
                return True
    return False


def _is_validation(fn, test):
    for st in ast.walk(fn):
        if isinstance(st, ast.If) and st.test is test:
            return all(isinstance(x, ast.Raise) for x in st.body)
    return False


def _is_changed_test(e, pol, fields):
    if isinstance(e, ast.Compare) and len(e.ops) == 1 and isinstance(e.ops[0], ast.NotEq) and pol:
        sides = {norm(e.left), norm(e.comparators[0])}
        return any('self.' + f in sides for f in fields)
    return False


def _r45(run, gmod, smod):
    run.describe('C02-R4', 'Gaussian and Lorentzian primitives clip the spectral window with the same index expressions')
    run.describe('C02-R5', 'Gaussian bin value = radiance (erf(A(i+1)) - erf(A(i))) / (2 delta); Lorentzian bin value = radiance * integral / delta over consecutive edges')
    forms = {}
    for mod, fname in ((gmod, 'add_gaussian_line'), (smod, 'add_lorentzian_line')):
        fn = mod.functions[fname]
        rad, wl, width, sp = [a.arg for a in fn.args.args[:4]]
        ev = PrimEval({wl: L('W0'), width: L('WIDTH'), rad: L('RAD')})
        pre = [st for st in fn.body if not isinstance(st, (ast.For, ast.If, ast.Return))]
        run_block(ev, pre)
        loops = [l for l in fn.body if isinstance(l, ast.For)]
        if len(loops) != 1:
            run.undecided('C02-R4', fname, 'expected one bin loop')
            continue
        lp = loops[0]
        forms[fname] = dict(fn=fn, ev=ev, lp=lp, sp=sp, mod=mod)
    if len(forms) == 2:
        g, s = forms['add_gaussian_line'], forms['add_lorentzian_line']
        for what in ('start', 'end', 'lower_wavelength'):
            run.subject('C02-R4')
            a, b = g['ev'].env.get(what), s['ev'].env.get(what)

            def canon(r, k):
                return r.key().replace(k, 'K') if r is not None else None
            ka, kb = canon(a, '10'), canon(b, '50')
            if a is not None and b is not None and ka == kb:
                run.ok('C02-R4', 'window ' + what, ka[:120])
            else:
                run.fail('C02-R4', 'cherab.core.model.lineshape|primitives|window:%s' % what, s['mod'].relpath, s['fn'].lineno,
                         'the Gaussian and Lorentzian primitives compute %s differently: %s vs %s' % (what, ka, kb))
        for fname, d in forms.items():
            run.subject('C02-R4')
            it = d['lp'].iter
            if isinstance(it, ast.Call) and dotted(it.func) == 'range' and [norm(a) for a in it.args] == ['start', 'end']:
                run.ok('C02-R4', fname + ' loop range', 'range(start, end)', sample=False)
            else:
                run.fail('C02-R4', '%s|%s|loop-range' % (d['mod'].name, fname), d['mod'].relpath, d['lp'].lineno, '%s loops over %s' % (fname, norm(it)))
            # the clipping bounds themselves
            run.subject('C02-R4')
            st, en = d['ev'].env.get('start'), d['ev'].env.get('end')
            okb = st is not None and en is not None and st.key().startswith('max(0, floor(') and en.key().startswith('min(%s.bins, ceil(' % d['sp'])
            if okb:
                run.ok('C02-R4', fname + ' clipping', 'start = max(0, floor(.)), end = min(bins, ceil(.))', sample=False)
            else:
                run.fail('C02-R4', '%s|%s|clipping' % (d['mod'].name, fname), d['mod'].relpath, d['fn'].lineno,
                         '%s: start = %s, end = %s' % (fname, st, en))
    # ---- R5 Gaussian
    if 'add_gaussian_line' in forms:
        d = forms['add_gaussian_line']
        fn, ev, lp, sp, mod = d['fn'], d['ev'], d['lp'], d['sp'], d['mod']
        K = '%s|add_gaussian_line|' % mod.name
        i = lp.target.id
        mn, dl = L(sp + '.min_wavelength'), L(sp + '.delta_wavelength')
        init_li = ev.env.get('lower_integral')
        ev2 = PrimEval(dict(ev.env))
        ev2.env['lower_integral'] = L('LI')
        ev2.env[i] = L(i)
        rec = []
        store_stmt = [st for st in lp.body if isinstance(st, ast.AugAssign) and norm(st.target).startswith(sp + '.samples_mv')]
        cut = lp.body.index(store_stmt[0]) if store_stmt else len(lp.body)
        run_block(ev2, lp.body[:cut], rec)
        stored_value = ev2.ev(store_stmt[0].value) if store_stmt else None
        store = [(norm(store_stmt[0].target), stored_value, store_stmt[0])] if store_stmt else []
        up = ev2.env.get('upper_integral')
        run.subject('C02-R5')
        problems = []
        temp = ev.env.get('temp')
        if temp is None or not (temp * L('M_SQRT2') * L('WIDTH')).eq(C(1)):
            problems.append('scale is %s, expected 1/(sqrt2 sigma)' % temp)
        if up is None or up.key() not in ev2.erf_args:
            problems.append('upper integral is not an erf value')
        else:
            a_up = ev2.erf_args[up.key()]
            want_up = (mn + dl * (L(i) + C(1)) - L('W0')) * temp if temp is not None else None
            if want_up is None or not a_up.eq(want_up):
                problems.append('upper erf argument is %s, expected (min + delta (i+1) - lambda0) * scale' % a_up)
            if init_li is None or init_li.key() not in ev.erf_args:
                problems.append('initial lower integral is not an erf value')
            else:
                a0 = ev.erf_args[init_li.key()]
                want0 = (mn + dl * ev.env['start'] - L('W0')) * temp if 'start' in ev.env else None
                if want0 is None or not a0.eq(want0):
                    problems.append('initial lower erf argument is %s, expected (min + delta start - lambda0) * scale' % a0)
            if not store or not isinstance(store[0][2], ast.AugAssign):
                problems.append('no accumulation into the spectrum')
            else:
                v = stored_value
                want = L('RAD') * C(HALF) * (up - L('LI')) / dl
                if not v.eq(want):
                    problems.append('bin value is %s, expected radiance (upper - lower) / (2 delta)' % v.key()[:120])
                if norm(store[0][2].target) != '%s.samples_mv[%s]' % (sp, i):
                    problems.append('value stored at %s' % norm(store[0][2].target))
            carried = [st for st in lp.body if isinstance(st, ast.Assign) and norm(st.targets[0]) == 'lower_integral']
            if not carried or norm(carried[-1].value) != 'upper_integral' or lp.body.index(carried[-1]) < lp.body.index(store[0][2]) if store else True:
                problems.append('lower integral is not carried over from the upper integral after the store')
        if problems:
            run.fail('C02-R5', K + 'bin-value', mod.relpath, lp.lineno, 'add_gaussian_line: ' + '; '.join(problems[:2]))
        else:
            run.ok('C02-R5', 'Gaussian bin value', 'radiance (erf(A(i+1)) - erf(A(i))) / (2 delta), A(k) = (min + delta k - lambda0)/(sqrt2 sigma)')
    if 'add_lorentzian_line' in forms:
        d = forms['add_lorentzian_line']
        fn, ev, lp, sp, mod = d['fn'], d['ev'], d['lp'], d['sp'], d['mod']
        K = '%s|add_lorentzian_line|' % mod.name
        i = lp.target.id
        mn, dl = L(sp + '.min_wavelength'), L(sp + '.delta_wavelength')
        ev2 = PrimEval(dict(ev.env))
        ev2.env['lower_wavelength'] = L('LOWER')
        ev2.env[i] = L(i)
        rec = []
        run_block(ev2, lp.body, rec)
        run.subject('C02-R5')
        problems = []
        up = ev2.env.get('upper_wavelength')
        if up is None or not up.eq(mn + dl * (L(i) + C(1))):
            problems.append('upper edge is %s' % up)
        integ = [c for c in ast.walk(lp) if isinstance(c, ast.Call) and isinstance(c.func, ast.Attribute) and c.func.attr == 'evaluate']
        if not integ or [norm(a) for a in integ[0].args] != ['lower_wavelength', 'upper_wavelength']:
            problems.append('integral not taken over (lower, upper)')
        store = [r for r in rec if r[0].startswith(sp + '.samples_mv')]
        if not store or not isinstance(store[0][2], ast.AugAssign) or norm(store[0][2].value).replace(' ', '') != ('%s*bin_integral/%s.delta_wavelength' % (fn.args.args[0].arg, sp)):
            problems.append('bin value is %s' % (norm(store[0][2].value) if store else None))
        low = ev2.env.get('lower_wavelength')
        if low is None or up is None or not low.eq(up):
            problems.append('lower edge is not advanced to the upper edge')
        if not ev.env.get('lower_wavelength') is not None or not ev.env['lower_wavelength'].eq(mn + ev.env['start'] * dl):
            problems.append('first lower edge is %s' % ev.env.get('lower_wavelength'))
        fset = [st for st in fn.body if isinstance(st, ast.Assign) and norm(st.targets[0]).endswith('.function')]
        if not fset or 'StarkFunction(%s, %s)' % (fn.args.args[1].arg, fn.args.args[2].arg) not in norm(fset[0].value):
            problems.append('integrand is not StarkFunction(wavelength, lambda_1_2)')
        if problems:
            run.fail('C02-R5', K + 'bin-value', mod.relpath, lp.lineno, 'add_lorentzian_line: ' + '; '.join(problems[:2]))
        else:
            run.ok('C02-R5', 'Lorentzian bin value', 'radiance * integral over [min + delta i, min + delta (i+1)] / delta')
    run.floor('C02-R4', 6)
    run.floor('C02-R5', 2)


_G = LS + 'gaussian.pyx'
_Z = LS + 'zeeman.pyx'
_S = LS + 'stark.pyx'
_M = LS + 'beam/mse.pyx'
_MU = LS + 'multiplet.pyx'
_AZ = 'cherab/core/atomic/zeeman.pyx'
_GQ = 'cherab/core/math/integrators/integrators1d.pyx'
MUTANTS = [
    dict(name='quadrature-table-built-from-order-one', file='cherab/core/math/integrators/integrators1d.pyx',
         find="        for order in range(self._min_order, self._max_order + 1):\n            self._roots[i:i + order]", replace="        for order in range(1, self._max_order + 1):\n            self._roots[i:i + order]", expect='C02-R6'),
    dict(name='multiplet-table-not-copied', file=LS + 'multiplet.pyx', find="        multiplet = np.array(multiplet, dtype=np.float64)", replace="        multiplet = np.ascontiguousarray(multiplet, dtype=np.float64)", expect='C02-R7'),
    dict(name='stark-sigma-from-zeroed-width', edits=[
        dict(file=LS + 'stark.pyx', find="        sigma = fwhm_full / _SIGMA2FWHM\n\n        fwhm_lorentz_to_total", replace="        fwhm_lorentz_to_total"),
        dict(file=LS + 'stark.pyx', find="        gauss_weight = 1 - lorentz_weight\n", replace="        gauss_weight = 1 - lorentz_weight\n        sigma = fwhm_full / _SIGMA2FWHM\n")],
        expect='C02-R3'),
    dict(name='multiplet-skips-components-outside-window', file=LS + 'multiplet.pyx',
         find="            spectrum = add_gaussian_line(component_radiance, shifted_wavelength, sigma, spectrum)",
         replace="            if shifted_wavelength < spectrum.min_wavelength or shifted_wavelength > spectrum.max_wavelength:\n                continue\n"
                 "            spectrum = add_gaussian_line(component_radiance, shifted_wavelength, sigma, spectrum)", expect='C02-R3'),
    dict(name='quadrature-min-order-lazy-rebuild', file=_GQ, find="        self._min_order = value\n\n        self._build_cache()",
         replace="        rebuild = value < self._min_order\n        self._min_order = value\n\n        if rebuild:\n            self._build_cache()", expect='C02-R6'),
    dict(name='quadrature-max-order-no-rebuild', file=_GQ, find="        self._max_order = value\n\n        self._build_cache()", replace="        self._max_order = value", expect='C02-R6'),
    dict(name='sigma-weight-quarter-to-half', file=_Z, find="component_radiance = (0.25 * sin_sqr + 0.5 * cos_sqr) * radiance", replace="component_radiance = (0.5 * sin_sqr + 0.5 * cos_sqr) * radiance", occurrence=0, of=3, expect='C02-R3'),
    dict(name='polarisation-guards-swapped', file=_Z, find="        if self._polarisation != SIGMA_POLARISATION:\n            component_radiance = 0.5 * sin_sqr * radiance\n            spectrum = add_gaussian_line(component_radiance, shifted_wavelength, sigma, spectrum)",
         replace="        if self._polarisation != PI_POLARISATION:\n            component_radiance = 0.5 * sin_sqr * radiance\n            spectrum = add_gaussian_line(component_radiance, shifted_wavelength, sigma, spectrum)", occurrence=0, of=2, expect='C02-R'),
    dict(name='sigma-guard-deleted', file=_G, find="    if sigma <= 0:\n        return spectrum\n", replace="", expect='C02-R1'),
    dict(name='gaussian-half-dropped', file=_G, find="radiance * 0.5 * (upper_integral - lower_integral) / spectrum.delta_wavelength", replace="radiance * (upper_integral - lower_integral) / spectrum.delta_wavelength", expect='C02-R5'),
    dict(name='gaussian-bin-edge', file=_G, find="        upper_wavelength = spectrum.min_wavelength + spectrum.delta_wavelength * (i + 1)\n        upper_integral", replace="        upper_wavelength = spectrum.min_wavelength + spectrum.delta_wavelength * i\n        upper_integral", expect='C02-R5'),
    dict(name='gauss-weight-not-complement', file=_S, find="gauss_weight = 1 - lorentz_weight", replace="gauss_weight = lorentz_weight", expect='C02-R3'),
    dict(name='mse-pi-intensity', file=_M, find="intensity_pi = 0.5 * d * radiance", replace="intensity_pi = d * radiance", expect='C02-R3'),
    dict(name='zero-temperature-guard-deleted', file=_MU, find="        if ts <= 0.0:\n            return spectrum\n", replace="", expect='C02-R1'),
    dict(name='b0-polarised-full-radiance', file=_Z, find="            return add_gaussian_line(0.5 * radiance, shifted_wavelength, sigma, spectrum)", replace="            return add_gaussian_line(radiance, shifted_wavelength, sigma, spectrum)", occurrence=1, of=3, expect='C02-R'),
    dict(name='zeeman-structure-not-normalised', file=_AZ, find="                multiplet_mv[MULTIPLET_RATIO, i] /= ratio_sum", replace="                multiplet_mv[MULTIPLET_RATIO, i] /= 1.0", expect='C02-R3'),
    dict(name='multiplet-ratio-row', file=_MU, find="component_radiance = radiance * self._multiplet_mv[MULTIPLET_RATIO, i]", replace="component_radiance = radiance * self._multiplet_mv[MULTIPLET_WAVELENGTH, i]", expect='C02-R3'),
    dict(name='stark-b0-lorentz-not-halved', file=_S, find="            spectrum = add_lorentzian_line(lorentz_weight * radiance, shifted_wavelength, fwhm_full, spectrum, self.integrator)\n\n            return spectrum",
         replace="            spectrum = add_lorentzian_line(lorentz_weight * radiance * 2, shifted_wavelength, fwhm_full, spectrum, self.integrator)\n\n            return spectrum", expect='C02-R'),
    dict(name='lorentzian-edge-not-advanced', file=_S, find="        spectrum.samples_mv[i] += radiance * bin_integral / spectrum.delta_wavelength\n\n        lower_wavelength = upper_wavelength", replace="        spectrum.samples_mv[i] += radiance * bin_integral / spectrum.delta_wavelength", expect='C02-R5'),
    dict(name='mse-sigma1-share', file=_M, find="intensity_s1 = 0.5 * s1_to_s0 * intensity_s0", replace="intensity_s1 = s1_to_s0 * intensity_s0", expect='C02-R3'),
]
TWINS = [
    dict(name='quadrature-max-order-rebuild-on-growth', file=_GQ, find="        self._max_order = value\n\n        self._build_cache()",
         replace="        rebuild = value > self._max_order\n        self._max_order = value\n\n        if rebuild:\n            self._build_cache()"),
    dict(name='temporary-introduced', file=_Z, find="            component_radiance = 0.5 * sin_sqr * radiance\n", replace="            half_sin = sin_sqr * 0.5\n            component_radiance = radiance * half_sin\n", occurrence=0, of=3),
    dict(name='gaussian-value-reordered', file=_G, find="radiance * 0.5 * (upper_integral - lower_integral) / spectrum.delta_wavelength", replace="0.5 * (upper_integral - lower_integral) * radiance / spectrum.delta_wavelength"),
]
