"""C19 -- element / isotope registry (decided whole; DESIGN section 5, C19).

Literal-table evaluation: every module-level Element(...)/Isotope(...) call of
elements.pyx is folded into a record; the index-building code is interpreted
over those records using the key expressions found in the code.
"""
import ast

from ..program import Program, dotted, norm, const_fold
from ..report import AnalysisError
from ..flow import guards_of, facts

PYX = 'cherab/core/atomic/elements.pyx'
LINE = 'cherab/core/atomic/line.pyx'
MOD = 'cherab.core.atomic.elements'

PERIODIC = ('H He Li Be B C N O F Ne Na Mg Al Si P S Cl Ar K Ca Sc Ti V Cr Mn Fe Co Ni Cu Zn Ga Ge As Se Br Kr '
            'Rb Sr Y Zr Nb Mo Tc Ru Rh Pd Ag Cd In Sn Sb Te I Xe Cs Ba La Ce Pr Nd Pm Sm Eu Gd Tb Dy Ho Er Tm Yb Lu '
            'Hf Ta W Re Os Ir Pt Au Hg Tl Pb Bi Po At Rn Fr Ra Ac Th Pa U Np Pu Am Cm Bk Cf Es Fm Md No Lr Rf Db Sg '
            'Bh Hs Mt Ds Rg Cn Nh Fl Mc Lv Ts Og').split()
Z_OF = {s: i + 1 for i, s in enumerate(PERIODIC)}


class Rec(dict):
    __getattr__ = dict.__getitem__


_LOCALS = {}


def _set_locals(fn):
    _LOCALS.clear()
    for n in ast.walk(fn):
        if isinstance(n, ast.Assign) and len(n.targets) == 1 and isinstance(n.targets[0], ast.Name):
            _LOCALS.setdefault(n.targets[0].id, []).append(n.value)


def _norm_builder(mi, fn, idxname, kindname):
    """(builder with the variable holding the registered object renamed to 'obj', True when the objects come pre-filtered from a helper that
    collects the module objects with 'type(o) is <its class argument>' called with kindname)."""
    import copy
    from ..inline import _Rename
    var = None
    for n in ast.walk(fn):
        if isinstance(n, ast.Assign) and isinstance(n.targets[0], ast.Subscript) and norm(n.targets[0].value) == idxname and isinstance(n.value, ast.Name):
            var = n.value.id
            break
    pre = False
    if var is None:
        return fn, pre
    for lp in ast.walk(fn):
        if isinstance(lp, ast.For) and isinstance(lp.target, ast.Name) and lp.target.id == var and isinstance(lp.iter, ast.Call) \
                and isinstance(lp.iter.func, ast.Name) and lp.iter.func.id in mi.functions and len(lp.iter.args) == 1 and norm(lp.iter.args[0]) == kindname:
            h = mi.functions[lp.iter.func.id]
            hp = [a.arg for a in h.args.args]
            # ... or by a comprehension filtered on the exact type: return [o for o in candidates if type(o) is cls]
            if len(hp) == 1:
                comps = [r.value for r in ast.walk(h) if isinstance(r, ast.Return) and isinstance(r.value, (ast.ListComp, ast.GeneratorExp))]
                comps += [st.value for r in ast.walk(h) if isinstance(r, ast.Return) and isinstance(r.value, ast.Name)
                          for st in ast.walk(h) if isinstance(st, ast.Assign) and len(st.targets) == 1 and norm(st.targets[0]) == r.value.id
                          and isinstance(st.value, (ast.ListComp, ast.GeneratorExp))]
                for cp in comps:
                    g = cp.generators[-1]
                    if isinstance(cp.elt, ast.Name) and isinstance(g.target, ast.Name) and cp.elt.id == g.target.id and any(
                            isinstance(t, ast.Compare) and len(t.ops) == 1 and isinstance(t.ops[0], (ast.Is, ast.Eq))
                            and norm(t.left) == 'type(%s)' % g.target.id and norm(t.comparators[0]) == hp[0] for t in g.ifs):
                        pre = True
            rets = [r for r in ast.walk(h) if isinstance(r, ast.Return) and isinstance(r.value, ast.Name)]
            if len(hp) == 1 and len(rets) == 1:
                lst = rets[0].value.id
                apps = [c for c in ast.walk(h) if isinstance(c, ast.Call) and isinstance(c.func, ast.Attribute) and c.func.attr == 'append'
                        and norm(c.func.value) == lst and len(c.args) == 1 and isinstance(c.args[0], ast.Name)]
                if apps and all((('type(%s)' % a.args[0].id, 'is', hp[0]) in facts(guards_of(h, a) or [])
                                 or ('type(%s)' % a.args[0].id, '==', hp[0]) in facts(guards_of(h, a) or [])) for a in apps):
                    pre = True
    if var != 'obj':
        fn = _Rename({var: 'obj'}).visit(copy.deepcopy(fn))
        ast.fix_missing_locations(fn)
    return fn, pre


def _discover_builder(mi, kindname, default_builder, default_index):
    """(builder function name, index dict name) for the registry of `kindname`: the module-level function that stores an object into a
    module-level dict under a test 'type(obj) is <kindname>' (names as written; the documented ones when nothing is found)."""
    dicts = {n for n, v in mi.assigns.items() if isinstance(v, ast.Dict) and not v.keys}
    for fname, f in dict.items(mi.functions):
        for n in ast.walk(f):
            if isinstance(n, ast.Assign) and isinstance(n.targets[0], ast.Subscript) and isinstance(n.targets[0].value, ast.Name) \
                    and n.targets[0].value.id in dicts and isinstance(n.value, ast.Name):
                fx = facts(guards_of(f, n) or [])
                v = n.value.id
                if ('type(%s)' % v, 'is', kindname) in fx or ('type(%s)' % v, '==', kindname) in fx:
                    return fname, n.targets[0].value.id
    return default_builder, default_index


def _key_eval(e, obj):
    """Evaluate an index key expression over a record."""
    if isinstance(e, ast.Constant):
        return e.value
    if isinstance(e, ast.Name):
        if e.id == 'obj':
            return obj
        if e.id in _LOCALS and len(_LOCALS[e.id]) == 1:
            return _key_eval(_LOCALS[e.id][0], obj)        # a local of the builder holding part of the key
        raise AnalysisError('C19: unknown name %s in index key' % e.id)
    if isinstance(e, ast.Attribute):
        v = _key_eval(e.value, obj)
        if isinstance(v, Rec):
            if e.attr not in v:
                raise AnalysisError('C19: record has no field %s' % e.attr)
            return v[e.attr]
        raise AnalysisError('C19: attribute %s of non-record' % e.attr)
    if isinstance(e, ast.Call):
        if isinstance(e.func, ast.Attribute) and e.func.attr in ('lower', 'upper', 'strip', 'capitalize') and not e.args:
            return getattr(str(_key_eval(e.func.value, obj)), e.func.attr)() if isinstance(_key_eval(e.func.value, obj), str) \
                else _raise('str method on non-str')
        if dotted(e.func) == 'str' and len(e.args) == 1:
            return str(_key_eval(e.args[0], obj))
    if isinstance(e, ast.BinOp) and isinstance(e.op, ast.Add):
        return _key_eval(e.left, obj) + _key_eval(e.right, obj)
    if isinstance(e, ast.Tuple):
        return tuple(_key_eval(x, obj) for x in e.elts)
    raise AnalysisError('C19: cannot evaluate index key %s' % norm(e))


def _raise(m):
    raise AnalysisError('C19: ' + m)


def _weight(run, mi, node, st, var):
    """the atomic weight argument: a literal, or a module-level constant bound to one.  A constant that is not a finite number (NaN, inf)
    is a positive diagnosis: the weight takes part in ==, and NaN != NaN, so such a species does not compare equal to itself."""
    v = const_fold(node)
    if v is not None:
        return v
    if isinstance(node, ast.Name) and node.id in mi.assigns:
        d = mi.assigns[node.id]
        v = const_fold(d)
        if v is not None:
            return v
        txt = norm(d).replace('"', "'").lower()
        if txt in ("float('nan')", "float('inf')", "float('-inf')", 'np.nan', 'numpy.nan', 'math.nan', 'np.inf', 'math.inf', 'nan', 'inf'):
            run.subject('C19-R2')
            run.fail('C19-R2', MOD + '|non-finite-weight|%s' % var, PYX, st.lineno,
                     "%s is defined with the atomic weight %s = %s, which is not a finite number: the weight is one of the compared fields, "
                     "and NaN is unequal to itself, so this species does not compare equal to itself (a Line or dictionary key built from it "
                     "is never found again) and every mass-dependent quantity computed from it is NaN" % (var, node.id, norm(d)))
            return 0.0
    return None


def check(run):
    prog = Program()
    mi = prog.load(PYX)
    prog.load(LINE)
    prog.link()
    prog.normalise_module(mi, only=('lookup_element', 'lookup_isotope'))
    BE, IE = _discover_builder(mi, 'Element', '_build_element_index', '_element_index')
    BI, II = _discover_builder(mi, 'Isotope', '_build_isotope_index', '_isotope_index')
    prog.normalise_module(mi, only=tuple({BE, BI}), propagate=False)
    run.use_file(PYX)
    run.use_file(PYX[:-3] + 'pxd')
    run.use_file(LINE)
    run.use_file(LINE[:-3] + 'pxd')
    run.explanation = (
        'Decides C19 whole for the registry as written in the source: all module-level Element(...)/Isotope(...) constructor '
        'calls are folded to records (84 elements, 290 isotopes today); name/symbol uniqueness, atomic numbers against an '
        'embedded periodic table, isotope consistency (element bound, A >= Z, |weight - A| < 0.1); the key expressions of '
        '_build_element_index/_build_isotope_index are interpreted over all records: every identifier the statement names '
        '(name, symbol, atomic number; isotope name, symbol, element symbol + mass number) must be a key that maps to that '
        'very object, with no collisions between different objects, and lookups lower-case the query like the index keys; '
        'hash/eq agreement of Element, Isotope and Line (hashed fields subset of compared fields, != the De Morgan dual of ==, '
        'hashed fields read-only). Objects created dynamically would be invisible (any non-literal constructor argument is an '
        'analysis error).')
    run.assumptions = ['Cython compiles __richcmp__/__hash__ as written', 'str.lower() is applied identically to keys and queries']
    elements, isotopes, order = {}, {}, []
    for st in mi.tree.body:
        if not (isinstance(st, ast.Assign) and len(st.targets) == 1 and isinstance(st.targets[0], ast.Name)
                and isinstance(st.value, ast.Call) and dotted(st.value.func) in ('Element', 'Isotope')):
            continue
        var = st.targets[0].id
        kind = dotted(st.value.func)
        a = st.value.args
        if st.value.keywords or len(a) != (4 if kind == 'Element' else 5):
            raise AnalysisError('C19: constructor call with unexpected arguments: %s' % norm(st))
        if not (isinstance(a[0], ast.Constant) and isinstance(a[1], ast.Constant)):
            raise AnalysisError('C19: non-literal name/symbol: %s' % norm(st))
        if kind == 'Element':
            z, w = const_fold(a[2]), _weight(run, mi, a[3], st, var)
            if z is None or w is None:
                raise AnalysisError('C19: non-literal element argument: %s' % norm(st))
            rec = Rec(kind='Element', var=var, name=a[0].value, symbol=a[1].value, atomic_number=z, atomic_weight=w, line=st.lineno)
            elements[var] = rec
        else:
            if not isinstance(a[2], ast.Name):
                raise AnalysisError('C19: isotope element is not a module-level element name: %s' % norm(st))
            m, w = const_fold(a[3]), _weight(run, mi, a[4], st, var)
            if m is None or w is None:
                raise AnalysisError('C19: non-literal isotope argument: %s' % norm(st))
            rec = Rec(kind='Isotope', var=var, name=a[0].value, symbol=a[1].value, element_var=a[2].id, mass_number=m,
                      atomic_weight=w, line=st.lineno)
            isotopes[var] = rec
        order.append(rec)
    K = MOD + '|'
    # ---- R1 uniqueness
    run.describe('C19-R1', 'unique names over all species; unique symbols among elements and among isotopes; unique variables')
    for label, recs, field in (('species name', order, 'name'), ('element symbol', list(elements.values()), 'symbol'),
                               ('isotope symbol', list(isotopes.values()), 'symbol')):
        seen = {}
        for r in recs:
            run.subject('C19-R1')
            k = r[field]
            if k in seen:
                run.fail('C19-R1', K + 'duplicate-%s|%s' % (label.replace(' ', '-'), k), PYX, r.line,
                         "%s '%s' is shared by %s and %s" % (label, k, seen[k].var, r.var))
            else:
                seen[k] = r
                run.ok('C19-R1', '%s %s' % (label, k), r.var, sample=False)
    # ---- R2 periodic table + isotope consistency
    run.describe('C19-R2', 'Z matches the periodic table; isotope: element defined, same Z, A >= Z, |weight - A| < 0.1')
    for r in elements.values():
        run.subject('C19-R2')
        if r.symbol not in Z_OF:
            run.fail('C19-R2', K + 'unknown-symbol|' + r.var, PYX, r.line, "element %s has symbol '%s' which is not in the periodic table" % (r.var, r.symbol))
        elif Z_OF[r.symbol] != r.atomic_number:
            run.fail('C19-R2', K + 'atomic-number|' + r.var, PYX, r.line,
                     'element %s (%s) has atomic number %s, the periodic table says %d' % (r.var, r.symbol, r.atomic_number, Z_OF[r.symbol]))
        else:
            run.ok('C19-R2', 'Z(%s)' % r.symbol, r.atomic_number, sample=(r.atomic_number < 3))
    for r in isotopes.values():
        run.subject('C19-R2')
        el = elements.get(r.element_var)
        if el is None:
            run.fail('C19-R2', K + 'isotope-element|' + r.var, PYX, r.line, 'isotope %s refers to undefined element %s' % (r.var, r.element_var))
            continue
        r['element'] = el
        r['atomic_number'] = el.atomic_number
        problems = []
        if r.mass_number < el.atomic_number:
            problems.append('mass number %s smaller than atomic number %s' % (r.mass_number, el.atomic_number))
        if abs(r.atomic_weight - r.mass_number) >= 0.1:
            problems.append('atomic weight %s is not within 0.1 u of mass number %s' % (r.atomic_weight, r.mass_number))
        # the isotope's own name/symbol must be consistent with its element (e.g. "carbon13"/"C13" bound to carbon)
        stem = r.name.rstrip('0123456789')
        if stem != r.name and stem != el.name:
            problems.append("name '%s' says element '%s' but it is bound to %s" % (r.name, stem, el.name))
        if stem != r.name and r.name[len(stem):] != str(r.mass_number):
            problems.append("name '%s' disagrees with mass number %s" % (r.name, r.mass_number))
        if problems:
            run.fail('C19-R2', K + 'isotope|' + r.var, PYX, r.line, 'isotope %s: %s' % (r.var, '; '.join(problems)))
        else:
            run.ok('C19-R2', 'isotope %s' % r.var, '%s A=%s w=%s' % (el.symbol, r.mass_number, r.atomic_weight), sample=(r.var in ('deuterium', 'carbon13')))
    # Isotope.__init__ takes Z from its element
    iso = prog.cls(MOD + '.Isotope')
    init = prog.method(iso, '__init__', inherited=False)
    run.subject('C19-R2')
    sup = [c for c in ast.walk(init) if isinstance(c, ast.Call) and norm(c.func) in ('super().__init__', 'Element.__init__')]
    from ..inline import resolver
    res = resolver(init)
    got = {}
    if sup:
        el_init = prog.method(prog.cls(MOD + '.Element'), '__init__', inherited=False)
        pnames = [a_.arg for a_ in el_init.args.args[1:]] if el_init is not None else ['name', 'symbol', 'atomic_number', 'atomic_weight']
        pos = list(sup[0].args[1:] if norm(sup[0].func) == 'Element.__init__' else sup[0].args)
        for pn, a_ in zip(pnames, pos):
            got[pn] = norm(res(a_))
        for k_ in sup[0].keywords:
            if k_.arg:
                got[k_.arg] = norm(res(k_.value))
    ip = [a_.arg for a_ in init.args.args]
    want = {'name': ip[1], 'symbol': ip[2], 'atomic_number': '%s.atomic_number' % ip[3], 'atomic_weight': ip[5]} if len(ip) >= 6 else None
    if sup and want is not None and {k_: got.get(k_) for k_ in want} == want:
        run.ok('C19-R2', 'Isotope.__init__', norm(sup[0]))
    else:
        run.fail('C19-R2', K + 'Isotope.__init__|super-args', PYX, init.lineno,
                 "Isotope.__init__ does not pass (name, symbol, element.atomic_number, atomic_weight) to Element.__init__: %s" % (norm(sup[0]) if sup else None))
    fs = {norm(t): norm(v) for st in init.body if isinstance(st, ast.Assign) for t, v in [(st.targets[0], st.value)]}
    run.subject('C19-R2')
    if fs.get('self.mass_number') == init.args.args[4].arg and fs.get('self.element') == init.args.args[3].arg:
        run.ok('C19-R2', 'Isotope fields', fs)
    else:
        run.fail('C19-R2', K + 'Isotope.__init__|fields', PYX, init.lineno, 'Isotope.__init__ stores %s' % fs)
    el = prog.cls(MOD + '.Element')
    einit = prog.method(el, '__init__', inherited=False)
    fs = {norm(st.targets[0]): norm(st.value) for st in einit.body if isinstance(st, ast.Assign)}
    run.subject('C19-R2')
    want = {'self.' + a.arg: a.arg for a in einit.args.args[1:]}
    if fs == want and set(want) == {'self.name', 'self.symbol', 'self.atomic_number', 'self.atomic_weight'}:
        run.ok('C19-R2', 'Element fields', fs)
    else:
        run.fail('C19-R2', K + 'Element.__init__|fields', PYX, einit.lineno, 'Element.__init__ stores %s' % fs)
    # ---- R3 index interpretation
    run.describe('C19-R3', 'index keys interpreted over all records: required identifiers present, map to the same object, no collisions; lookups lower-case')
    _shared_index = {}
    for builder, idxname, recs, kindname in ((BE, IE, elements, 'Element'), (BI, II, isotopes, 'Isotope')):
        fn = mi.functions.get(builder)
        if fn is None:
            raise AnalysisError('anchored function vanished: %s' % builder)
        keyexprs = []
        filt = []
        fn, prefiltered = _norm_builder(mi, fn, idxname, kindname)
        _set_locals(fn)
        for n in ast.walk(fn):
            if isinstance(n, ast.Assign) and isinstance(n.targets[0], ast.Subscript) and norm(n.targets[0].value) == idxname:
                if norm(n.value) != 'obj':
                    continue        # something other than the object itself is stored: not a key of the registry
                keyexprs.append(n.targets[0].slice)
                f = facts(guards_of(fn, n) or [])
                filt.append(prefiltered or ('type(obj)', 'is', kindname) in f or ('type(obj)', '==', kindname) in f)
                others = sorted(a for a in f if a[0].startswith(('type(obj)', 'isinstance(obj')) and a != ('type(obj)', 'is', kindname)
                                and a != (kindname, 'is', 'type(obj)') and not (a[1] in ('is not', '!=')))
        if not keyexprs:
            run.subject('C19-R3')
            run.undecided('C19-R3', builder, 'no store of the registered object into %s recognised' % idxname)
            continue
        run.subject('C19-R3')
        if all(filt):
            run.ok('C19-R3', builder + ' type filter', 'type(obj) is %s holds at every index store' % kindname)
        else:
            run.fail('C19-R3', K + builder + '|type-filter', PYX, fn.lineno,
                     "%s does not restrict the index stores to objects with 'type(obj) is %s'" % (builder, kindname))
        called = any(isinstance(st, ast.Expr) and isinstance(st.value, ast.Call) and dotted(st.value.func) == builder for st in mi.tree.body)
        run.subject('C19-R3')
        last_def = max(r.line for r in recs.values()) if recs else 0
        call_line = max([st.lineno for st in mi.tree.body if isinstance(st, ast.Expr) and isinstance(st.value, ast.Call)
                         and dotted(st.value.func) == builder] or [0])
        if called and call_line > last_def:
            run.ok('C19-R3', builder + ' invoked after all definitions', call_line)
        else:
            run.fail('C19-R3', K + builder + '|invoked', PYX, fn.lineno,
                     '%s is not invoked after the last %s definition (line %d)' % (builder, kindname, last_def))
        index = _shared_index.setdefault(idxname, {})       # one dict serving both registries is filled by both
        uninterpreted = set()
        for r in sorted(recs.values(), key=lambda r: r.var):     # dir(module) is sorted by name
            if kindname == 'Isotope' and 'element' not in r:
                continue
            for ke in keyexprs:
                try:
                    k = _key_eval(ke, r)
                except AnalysisError as e_:
                    uninterpreted.add(norm(ke)[:40] + ': ' + str(e_)[:60])
                    continue
                if k in index and index[k] is not r:
                    run.subject('C19-R3')
                    run.fail('C19-R3', K + builder + '|collision|%s' % (k,), PYX, r.line,
                             "index key '%s' (%s) of %s collides with %s: one of them cannot be looked up by it"
                             % (k, norm(ke), r.var, index[k].var))
                index[k] = r
        if uninterpreted:
            # a key expression outside the interpreted forms: which keys exist is not known, so the presence checks are undecided
            run.subject('C19-R3')
            run.undecided('C19-R3', builder + ' keys', 'index key not interpreted: ' + sorted(uninterpreted)[0])
            continue
        for r in recs.values():
            if kindname == 'Isotope' and 'element' not in r:
                continue
            if kindname == 'Element':
                required = {'name': r.name.lower(), 'symbol': r.symbol.lower(), 'atomic number': str(r.atomic_number)}
            else:
                required = {'name': r.name.lower(), 'symbol': r.symbol.lower(),
                            'element symbol + mass number': (r.element.symbol + str(r.mass_number)).lower()}
            for what, k in required.items():
                run.subject('C19-R3')
                if index.get(k) is r:
                    run.ok('C19-R3', '%s by %s' % (r.var, what), k, sample=(r.var in ('hydrogen', 'deuterium')))
                elif k in index:
                    run.fail('C19-R3', K + 'lookup|%s|%s' % (r.var, what), PYX, r.line,
                             "lookup of %s by its %s '%s' returns %s" % (r.var, what, k, index[k].var))
                else:
                    run.fail('C19-R3', K + 'lookup|%s|%s' % (r.var, what), PYX, r.line,
                             "%s cannot be looked up by its %s: key '%s' is never inserted" % (r.var, what, k))
    # lookups: interpreted on probe arguments -- every object must be found by its identifiers in any letter case, and every
    # isotope by (its element, its mass number)
    indexes = {}
    for builder, idxname, recs, kindname in ((BE, IE, elements, 'Element'), (BI, II, isotopes, 'Isotope')):
        fnb, _pre = _norm_builder(mi, mi.functions[builder], idxname, kindname)
        kx = [n.targets[0].slice for n in ast.walk(fnb) if isinstance(n, ast.Assign) and isinstance(n.targets[0], ast.Subscript) and norm(n.targets[0].value) == idxname
              and (_pre or BE != BI or ('type(obj)', 'is', kindname) in facts(guards_of(fnb, n) or []))]
        ix = indexes.get(idxname, {})
        _set_locals(fnb)
        for r in sorted(recs.values(), key=lambda r: r.var):
            if kindname == 'Isotope' and 'element' not in r:
                continue
            for ke in kx:
                try:
                    ix[_key_eval(ke, r)] = r
                except AnalysisError:
                    pass
        indexes[idxname] = ix
    # module-level lists the builders fill by append (and sort): positional tables the lookups may index
    mlists = {st.targets[0].id for st in mi.tree.body if isinstance(st, ast.Assign) and len(st.targets) == 1 and isinstance(st.targets[0], ast.Name)
              and isinstance(st.value, ast.List) and not st.value.elts}
    for builder, recs, kindname in ((BE, elements, 'Element'), (BI, isotopes, 'Isotope')):
        fnb, _pre = _norm_builder(mi, mi.functions[builder], IE if kindname == 'Element' else II, kindname)
        for n in ast.walk(fnb):
            if isinstance(n, ast.Call) and isinstance(n.func, ast.Attribute) and n.func.attr == 'append' and isinstance(n.func.value, ast.Name) \
                    and n.func.value.id in mlists and len(n.args) == 1 and norm(n.args[0]) == 'obj':
                f = facts(guards_of(fnb, n) or [])
                pool = dict(elements)
                pool.update(isotopes)
                if _pre or ('type(obj)', 'is', kindname) in f or ('type(obj)', '==', kindname) in f:
                    pool = recs
                tab = [r for r in sorted(pool.values(), key=lambda r: r.var) if not (r.get('kind') == 'Isotope' and 'element' not in r)]
                indexes.setdefault(n.func.value.id, []).extend(tab)
        for n in ast.walk(fnb):
            if isinstance(n, ast.Call) and isinstance(n.func, ast.Attribute) and n.func.attr == 'sort' and isinstance(n.func.value, ast.Name) \
                    and n.func.value.id in indexes and isinstance(indexes[n.func.value.id], list):
                key = [k.value for k in n.keywords if k.arg == 'key']
                rev = any(k.arg == 'reverse' and norm(k.value) == 'True' for k in n.keywords)
                if len(key) == 1 and isinstance(key[0], ast.Lambda) and isinstance(key[0].body, ast.Attribute) and isinstance(key[0].body.value, ast.Name) \
                        and key[0].body.value.id == key[0].args.args[0].arg and all(key[0].body.attr in r for r in indexes[n.func.value.id]):
                    indexes[n.func.value.id].sort(key=lambda r, a=key[0].body.attr: r[a], reverse=rev)
                else:
                    del indexes[n.func.value.id]      # order unknown: lookups through it are not interpreted
    # the two registries are distinct objects: one dict under two names merges them (shared keys resolve to whichever was stored last,
    # and an identifier of the other registry is found instead of raising)
    run.subject('C19-R3')
    shared = [st for st in mi.tree.body if isinstance(st, ast.Assign) and {IE, II} <= {norm(t) for t in st.targets}]
    shared += [st for st in mi.tree.body if isinstance(st, ast.Assign) and len(st.targets) == 1 and norm(st.targets[0]) in (IE, II)
               and norm(st.value) in (IE, II)]
    if IE == II:
        shared = [st for st in mi.tree.body if isinstance(st, ast.Assign) and any(norm(t) == IE for t in st.targets)] or [mi.functions[BE]]
    if shared:
        both = sorted(set(indexes[IE]) & set(indexes[II])) if IE != II else []
        run.fail('C19-R3', K + 'indices-aliased', PYX, shared[0].lineno,
                 "_element_index and _isotope_index are one dict (%s): identifiers of one registry are found in the other%s"
                 % (norm(shared[0])[:50], "; the shared key(s) %s resolve to whichever object was stored last" % both[:3] if both else ''))
    else:
        run.ok('C19-R3', 'element and isotope indices are separate objects', 'two module-level dict displays', sample=False)
    for fname, idxname, recs in (('lookup_element', IE, elements), ('lookup_isotope', II, isotopes)):
        fn = mi.functions.get(fname)
        if fn is None:
            raise AnalysisError('anchored function vanished: %s' % fname)
        probes = []
        for r in recs.values():
            if fname == 'lookup_isotope' and 'element' not in r:
                continue
            probes.append((r, 'name in upper case', (r.name.upper(), None)))
            probes.append((r, 'symbol in upper case', (r.symbol.upper(), None)))
            probes.append((r, 'symbol in lower case', (r.symbol.lower(), None)))
            if fname == 'lookup_isotope':
                probes.append((r, 'element object and mass number', (r.element, r.mass_number)))
                probes.append((r, 'element symbol and mass number', (r.element.symbol.upper(), r.mass_number)))
            else:
                probes.append((r, 'atomic number', (r.atomic_number, None)))
        bad, und = {}, None
        for r, what, args in probes:
            try:
                got = _lookup_eval(fn, args, indexes, mi)
            except _NoInterp as e:
                und = str(e)
                break
            if got is not r:
                bad.setdefault(what, (r, got))
        run.subject('C19-R3')
        if und:
            run.undecided('C19-R3', fname, 'cannot interpret %s' % und)
        elif bad:
            what, (r, got) = sorted(bad.items())[0]
            run.fail('C19-R3', K + fname + '|probe|' + what.replace(' ', '-'), PYX, fn.lineno,
                     '%s does not find %s by its %s (it %s): the query is not reduced to the lower-cased key the index was built with'
                     % (fname, r.var, what, 'raises' if got is None else 'returns %s' % got.var))
        else:
            run.ok('C19-R3', fname + ' finds every object by every identifier', '%d probes (any letter case%s)' % (
                len(probes), '; element + mass number' if fname == 'lookup_isotope' else '; atomic number'))
    # ---- R4 hash / eq
    run.describe('C19-R4', 'hashed fields subset of fields compared by ==; != is the De Morgan dual; hashed fields readonly; name compared')
    for cq, path in ((MOD + '.Element', PYX), (MOD + '.Isotope', PYX), ('cherab.core.atomic.line.Line', LINE)):
        ci = prog.cls(cq)
        h = ci.methods.get('__hash__')
        rc = ci.methods.get('__richcmp__')
        from ..inline import prep, class_lookup
        if rc is not None:
            rc = prep(rc, class_lookup(prog, ci))
        if h is not None:
            h = prep(h, class_lookup(prog, ci))
        if h is None or rc is None:
            raise AnalysisError('C19: %s lacks __hash__/__richcmp__' % cq)
        Kc = cq.rsplit('.', 1)[0] + '|' + ci.name + '|'
        hashed = None

        def key_tuple(e):
            # the tuple a key helper returns: self._key() -> (self.a, self.b.c, ...)
            if isinstance(e, ast.Call) and isinstance(e.func, ast.Attribute) and not e.args and e.func.attr in ci.methods:
                rets = [r for r in ast.walk(ci.methods[e.func.attr]) if isinstance(r, ast.Return) and r.value is not None]
                if len(rets) == 1 and isinstance(rets[0].value, ast.Tuple):
                    return rets[0].value
            return e if isinstance(e, ast.Tuple) else None
        projected = []
        for n in ast.walk(h):
            if isinstance(n, ast.Call) and dotted(n.func) == 'hash' and n.args and key_tuple(n.args[0]) is not None:
                tup = key_tuple(n.args[0])
                hashed = []
                for x in tup.elts:
                    if isinstance(x, ast.Attribute) and norm(x.value) == 'self':
                        hashed.append(x.attr)
                    elif isinstance(x, ast.Attribute) and isinstance(x.value, ast.Attribute) and norm(x.value.value) == 'self':
                        hashed.append(x.value.attr)
                        projected.append((x.value.attr, x.attr, x))
                    else:
                        hashed = None
                        break
        # a component that is an attribute *of* a field (self.element.symbol) identifies the field only if that attribute is unique
        for fld, attr, node in projected:
            run.subject('C19-R4')
            vals = {}
            for var, rec in list(elements.items()) + list(isotopes.items()):
                if attr in rec:
                    vals.setdefault(rec[attr], []).append(var)
            clash = sorted(v for v in vals.values() if len(v) > 1)
            if fld == 'element' and clash:
                run.fail('C19-R4', Kc + 'projected-key:' + attr, path, node.lineno,
                         "%s is identified by %s.%s instead of the %s itself: %s share the same %s, so lines of different species compare equal, "
                         "hash alike and overwrite each other as dictionary keys" % (ci.name, fld, attr, fld, ' and '.join(clash[0][:2]), attr))
            elif fld == 'element' and vals:
                run.ok('C19-R4', '%s key %s.%s' % (ci.name, fld, attr), 'unique over %d registry objects' % sum(len(v) for v in vals.values()))
            else:
                run.undecided('C19-R4', '%s key %s.%s' % (ci.name, fld, attr), 'uniqueness of the attribute not known')
        if hashed is None:
            run.undecided('C19-R4', ci.name + '.__hash__', 'not hash((self.a, self.b, ...))')
            continue
        eq_fields = ne_fields = None
        other = None
        for n in ast.walk(rc):
            if isinstance(n, ast.If) and isinstance(n.test, ast.Compare) and norm(n.test.left) == rc.args.args[2].arg:
                code = const_fold(n.test.comparators[0])
                if code is None:
                    code = {'Py_EQ': 2, 'Py_NE': 3, 'Py_LT': 0, 'Py_LE': 1, 'Py_GT': 4, 'Py_GE': 5}.get(norm(n.test.comparators[0]))
                ret = [s for s in n.body if isinstance(s, ast.Return)]
                if not ret:
                    continue
                e = ret[0].value
                # key-tuple spelling: self._key() == other._key()
                if isinstance(e, ast.Compare) and len(e.ops) == 1 and key_tuple(e.left) is not None and isinstance(e.comparators[0], ast.Call) \
                        and isinstance(e.comparators[0].func, ast.Attribute) and isinstance(e.left, ast.Call) \
                        and e.comparators[0].func.attr == e.left.func.attr:
                    flds_ = [x.attr if norm(x.value) == 'self' else x.value.attr for x in key_tuple(e.left).elts if isinstance(x, ast.Attribute)]
                    if code == 2 and isinstance(e.ops[0], ast.Eq):
                        eq_fields = flds_
                        continue
                    if code == 3 and isinstance(e.ops[0], ast.NotEq):
                        ne_fields = flds_
                        continue
                if code == 2:
                    eq_fields = _cmp_fields(e, ast.And, ast.Eq)
                if code == 3:
                    ne_fields = _cmp_fields(e, ast.Or, ast.NotEq)
        if eq_fields is None and ne_fields is None:
            # one conjunction held in a local and returned as 'equal if op == 2 else not equal' (either arm order)
            locs = {norm(st_.targets[0]): st_.value for st_ in ast.walk(rc) if isinstance(st_, ast.Assign) and len(st_.targets) == 1 and isinstance(st_.targets[0], ast.Name)}
            for r_ in ast.walk(rc):
                if isinstance(r_, ast.Return) and isinstance(r_.value, ast.IfExp) and isinstance(r_.value.test, ast.Compare) \
                        and norm(r_.value.test.left) == rc.args.args[2].arg:
                    code_ = const_fold(r_.value.test.comparators[0])
                    a_, b_ = r_.value.body, r_.value.orelse
                    if code_ == 3 and isinstance(r_.value.test.ops[0], ast.Eq):
                        a_, b_ = b_, a_
                    elif not (code_ == 2 and isinstance(r_.value.test.ops[0], ast.Eq)) and not (code_ == 3 and isinstance(r_.value.test.ops[0], ast.NotEq)):
                        continue
                    if isinstance(b_, ast.UnaryOp) and isinstance(b_.op, ast.Not) and norm(b_.operand) == norm(a_):
                        expr_ = locs[a_.id] if isinstance(a_, ast.Name) and a_.id in locs else a_
                        eq_fields = _cmp_fields(expr_, ast.And, ast.Eq)
                        ne_fields = list(eq_fields) if eq_fields is not None else None
        run.subject('C19-R4')
        if eq_fields is None or ne_fields is None:
            run.undecided('C19-R4', ci.name + '.__richcmp__', '== / != are not a conjunction / disjunction of per-field comparisons')
            continue
        loose = [f[:-1] for f in eq_fields if f.endswith('~') and f[:-1] in hashed]
        if loose:
            run.fail('C19-R4', Kc + 'eq-transformed', path, rc.lineno,
                     '%s.__richcmp__ compares a function of %s while __hash__ hashes the field itself: objects that differ only in how '
                     '%s is spelled compare equal but hash differently' % (ci.name, loose, loose[0]))
            continue
        eq_fields = [f.rstrip('~') for f in eq_fields]
        ne_fields = [f.rstrip('~') for f in ne_fields]
        if set(hashed) <= set(eq_fields):
            run.ok('C19-R4', ci.name + ' hash subset of eq', 'hash%s eq%s' % (hashed, eq_fields))
        else:
            run.fail('C19-R4', Kc + 'hash-eq', path, h.lineno,
                     '%s hashes %s but == compares only %s: equal objects may hash differently' % (ci.name, sorted(set(hashed) - set(eq_fields)), eq_fields))
        run.subject('C19-R4')
        if sorted(eq_fields) == sorted(ne_fields):
            run.ok('C19-R4', ci.name + ' != dual of ==', ne_fields)
        else:
            run.fail('C19-R4', Kc + 'ne-dual', path, rc.lineno, '%s: == compares %s but != compares %s' % (ci.name, eq_fields, ne_fields))
        run.subject('C19-R4')
        ident = 'name' if ci.name != 'Line' else 'transition'
        need = ['name', 'symbol'] if ci.name != 'Line' else ['element', 'charge', 'transition']
        if all(f in eq_fields for f in need):
            run.ok('C19-R4', ci.name + ' identifying fields compared', need)
        else:
            run.fail('C19-R4', Kc + 'eq-identity', path, rc.lineno,
                     '%s.__eq__ ignores %s: distinct species compare equal' % (ci.name, [f for f in need if f not in eq_fields]))
        isinst = [n for n in ast.walk(rc) if isinstance(n, ast.Call) and dotted(n.func) == 'isinstance' and norm(n.args[1]) == ci.name]
        run.subject('C19-R4')
        if isinst:
            run.ok('C19-R4', ci.name + ' type test', norm(isinst[0]))
        else:
            run.fail('C19-R4', Kc + 'type-test', path, rc.lineno, '%s.__richcmp__ does not test isinstance(other, %s)' % (ci.name, ci.name))
        for f in hashed:
            run.subject('C19-R4')
            fld = prog.field(ci, f)
            if fld is None:
                run.fail('C19-R4', Kc + 'field-decl|' + f, path, h.lineno, '%s hashes undeclared field %s' % (ci.name, f))
            elif fld[1] == 'readonly':
                run.ok('C19-R4', '%s.%s readonly' % (ci.name, f), fld[0], sample=False)
            else:
                run.fail('C19-R4', Kc + 'field-mutable|' + f, path, h.lineno,
                         "%s.%s is hashed but declared '%s': the key can change while the object is in a dictionary" % (ci.name, f, fld[1]))
    # the declared C type of the integer fields holds every value the registry stores in them
    run.describe('C19-R5', 'declared C types of atomic_number / mass_number hold every value of the registry; atomic_weight is a double')
    LIMITS = {'char': 127, 'signed char': 127, 'unsigned char': 255, 'short': 32767, 'unsigned short': 65535, 'int': 2 ** 31 - 1, 'unsigned int': 2 ** 32 - 1,
              'long': 2 ** 31 - 1, 'unsigned long': 2 ** 32 - 1, 'long long': 2 ** 63 - 1, 'Py_ssize_t': 2 ** 31 - 1, 'size_t': 2 ** 32 - 1, 'object': None}
    for cq, recs in ((MOD + '.Element', list(elements.values())), (MOD + '.Isotope', list(isotopes.values()))):
        ci = prog.cls(cq)
        for f in ('atomic_number', 'mass_number', 'atomic_weight'):
            fld = prog.field(ci, f)
            vals = [r[f] for r in recs if f in r and isinstance(r[f], (int, float))]
            if fld is None or not vals:
                continue
            run.subject('C19-R5')
            t = str(fld[0])
            if f == 'atomic_weight':
                if t in ('double', 'object', 'long double'):
                    run.ok('C19-R5', '%s.%s' % (ci.name, f), t, sample=False)
                else:
                    run.fail('C19-R5', '%s|%s|type|%s' % (MOD, ci.name, f), PYX[:-3] + 'pxd', 1,
                             "%s.%s is declared '%s': the atomic weights are not integers / lose precision, so |weight - mass number| < 0.1 u no "
                             "longer holds for the stored value" % (ci.name, f, t))
            elif t not in LIMITS:
                run.undecided('C19-R5', '%s.%s' % (ci.name, f), 'declared type %s' % t)
            elif LIMITS[t] is None or max(vals) <= LIMITS[t]:
                run.ok('C19-R5', '%s.%s' % (ci.name, f), '%s holds the largest value %d' % (t, max(vals)), sample=False)
            else:
                run.fail('C19-R5', '%s|%s|type|%s' % (MOD, ci.name, f), PYX[:-3] + 'pxd', 1,
                         "%s.%s is declared '%s' (largest value %d) but the registry stores values up to %d: they wrap around on assignment, so "
                         "the mass number read back is negative / smaller than the atomic number" % (ci.name, f, t, LIMITS[t], max(vals)))
    run.floor('C19-R5', 3)
    run.floor('C19-R1', 400)
    run.floor('C19-R2', 300)
    run.floor('C19-R3', 1000)
    run.floor('C19-R4', 20, 'obligations')
    run.extra['elements'] = len(elements)
    run.extra['isotopes'] = len(isotopes)
    # lines are stored in the repository under the key encode_transition builds (lower-cased levels), species under their symbol / charge
    run.include('C06', {'cherab/openadas/repository/utility.py'},
                'species and lines work as keys of the atomic-data repository through encode_transition / valid_charge')
    from ..cachekey import check_caches
    check_caches(run, [m_ for m_ in prog.modules.values() if not m_.name.endswith('#pxd')], 'C19-K', prog=prog)


class _NoInterp(Exception):
    pass


def _lookup_eval(fn, args, indexes, mi):
    """Run lookup_element / lookup_isotope on concrete probe arguments. Returns the record found or None (ValueError)."""
    ps = [a.arg for a in fn.args.args]
    env = dict(zip(ps, args))
    for p_, d in zip(ps[len(ps) - len(fn.args.defaults):], fn.args.defaults):
        if p_ not in env or env[p_] is None and len(args) <= ps.index(p_):
            env.setdefault(p_, d.value if isinstance(d, ast.Constant) else None)

    class _Ret(Exception):
        def __init__(self, v):
            self.v = v

    class _Brk(Exception):
        pass

    class _KeyErr(Exception):
        pass

    class _IdxErr(Exception):
        pass

    def ev(e):
        if isinstance(e, ast.Constant):
            return e.value
        if isinstance(e, ast.Name):
            if e.id in env:
                return env[e.id]
            if e.id in ('Element', 'Isotope'):
                return e.id
            raise _NoInterp('name %s' % e.id)
        if isinstance(e, ast.Attribute):
            v = ev(e.value)
            if isinstance(v, Rec) and e.attr in v:
                return v[e.attr]
            raise _NoInterp(norm(e))
        if isinstance(e, ast.BinOp) and isinstance(e.op, ast.Add):
            return ev(e.left) + ev(e.right)
        if isinstance(e, ast.Subscript) and isinstance(e.value, ast.Name) and e.value.id in indexes:
            k = ev(e.slice)
            cont = indexes[e.value.id]
            if isinstance(cont, list):
                # a module-level table filled by the index builder: positional access, IndexError is not a KeyError
                if isinstance(k, int) and -len(cont) <= k < len(cont):
                    return cont[k]
                raise _IdxErr()
            if k in cont:
                return cont[k]
            raise _KeyErr()
        if isinstance(e, ast.BinOp) and isinstance(e.op, ast.Sub):
            l, r = ev(e.left), ev(e.right)
            if isinstance(l, int) and isinstance(r, int):
                return l - r
            raise _NoInterp(norm(e)[:50])
        if isinstance(e, ast.Compare) and len(e.ops) > 1:
            vals = [ev(e.left)] + [ev(c) for c in e.comparators]
            for a_, op_, b_ in zip(vals, e.ops, vals[1:]):
                if not ev(ast.Compare(left=ast.Constant(value=a_), ops=[op_], comparators=[ast.Constant(value=b_)])):
                    return False
            return True
        if isinstance(e, ast.Call):
            d = dotted(e.func)
            if d == 'str' and len(e.args) == 1:
                v = ev(e.args[0])
                if isinstance(v, Rec):
                    raise _NoInterp('str() of an object')
                return str(v)
            if d == 'type' and len(e.args) == 1:
                v = ev(e.args[0])
                return v.kind if isinstance(v, Rec) and 'kind' in v else type(v).__name__
            if d == 'isinstance' and len(e.args) == 2:
                v = ev(e.args[0])
                ks = [norm(x) for x in e.args[1].elts] if isinstance(e.args[1], ast.Tuple) else [norm(e.args[1])]
                builtin = {'int': int, 'str': str, 'float': float, 'bool': bool, 'tuple': tuple, 'list': list}
                for k in ks:
                    if k in builtin:
                        if not isinstance(v, Rec) and isinstance(v, builtin[k]) and not (k == 'int' and isinstance(v, bool)):
                            return True
                    elif k in ('Element', 'Isotope'):
                        if isinstance(v, Rec) and (v.get('kind') == k or (k == 'Element' and v.get('kind') == 'Isotope')):
                            return True
                    else:
                        raise _NoInterp('isinstance(.., %s)' % k)
                return False
            if d == 'len' and len(e.args) == 1 and isinstance(e.args[0], ast.Name) and e.args[0].id in indexes:
                return len(indexes[e.args[0].id])
            if d == 'int' and len(e.args) == 1:
                v = ev(e.args[0])
                if isinstance(v, (int, str)) and not isinstance(v, Rec):
                    try:
                        return int(v)
                    except ValueError:
                        raise _IdxErr()
            if d in ('lookup_element', 'lookup_isotope') and d in mi.functions:
                r = _lookup_eval(mi.functions[d], tuple(ev(a) for a in e.args), indexes, mi)
                if r is None:
                    raise _KeyErr()
                return r
            if isinstance(e.func, ast.Attribute) and e.func.attr in ('lower', 'upper', 'strip', 'capitalize', 'casefold') and not e.args:
                v = ev(e.func.value)
                if isinstance(v, str):
                    return getattr(v, e.func.attr)()
            if isinstance(e.func, ast.Attribute) and e.func.attr == 'get' and isinstance(e.func.value, ast.Name) and e.func.value.id in indexes:
                return indexes[e.func.value.id].get(ev(e.args[0]))
            raise _NoInterp(norm(e)[:50])
        if isinstance(e, ast.Compare) and len(e.ops) == 1:
            l, r = ev(e.left), ev(e.comparators[0])
            op = type(e.ops[0])
            if op in (ast.Is, ast.Eq):
                return l == r
            if op in (ast.IsNot, ast.NotEq):
                return l != r
            if op is ast.In:
                return l in r
            if op is ast.NotIn:
                return l not in r
            if op in (ast.Lt, ast.LtE, ast.Gt, ast.GtE) and all(isinstance(x, (int, float)) and not isinstance(x, Rec) for x in (l, r)):
                return {ast.Lt: l < r, ast.LtE: l <= r, ast.Gt: l > r, ast.GtE: l >= r}[op]
            raise _NoInterp(norm(e)[:50])
        if isinstance(e, ast.UnaryOp) and isinstance(e.op, ast.Not):
            return not ev(e.operand)
        if isinstance(e, ast.BoolOp):
            if isinstance(e.op, ast.And):
                v = True
                for x in e.values:
                    v = ev(x)
                    if not v:
                        return v
                return v
            v = False
            for x in e.values:
                v = ev(x)
                if v:
                    return v
            return v
        if isinstance(e, ast.IfExp):
            return ev(e.body) if ev(e.test) else ev(e.orelse)
        if isinstance(e, ast.Tuple):
            return tuple(ev(x) for x in e.elts)
        raise _NoInterp(norm(e)[:50])

    def block(stmts):
        for st in stmts:
            if isinstance(st, ast.Expr):
                continue
            if isinstance(st, ast.Return):
                raise _Ret(ev(st.value) if st.value is not None else None)
            if isinstance(st, ast.Assign) and len(st.targets) == 1 and isinstance(st.targets[0], ast.Name):
                env[st.targets[0].id] = ev(st.value)
            elif isinstance(st, ast.If):
                block(st.body if ev(st.test) else st.orelse)
            elif isinstance(st, ast.Try):
                try:
                    block(st.body)
                    block(st.orelse)
                except _KeyErr:
                    hs = [h for h in st.handlers if h.type is None or 'KeyError' in norm(h.type) or norm(h.type) in ('Exception', 'LookupError')]
                    if not hs:
                        raise
                    block(hs[0].body)
            elif isinstance(st, ast.Raise):
                raise _Ret(None)
            elif isinstance(st, ast.For) and isinstance(st.iter, ast.Tuple) and len(st.iter.elts) == 1:
                try:
                    block(st.body)
                except _Brk:
                    pass
            elif isinstance(st, ast.Break):
                raise _Brk()
            elif isinstance(st, ast.Pass):
                continue
            else:
                raise _NoInterp(norm(st)[:50])
    try:
        block(fn.body)
    except _Ret as r:
        return r.v if isinstance(r.v, Rec) else None
    except (_KeyErr, _IdxErr):
        return None
    return None


def _cmp_fields(e, boolop, cmpop):
    """Fields compared by a conjunction / disjunction of per-field comparisons; a field compared through a function of its
    value is returned as 'field~'. None: not of that form."""
    vals = e.values if isinstance(e, ast.BoolOp) and isinstance(e.op, boolop) else [e]
    out = []
    dual = {ast.Eq: ast.NotEq, ast.NotEq: ast.Eq}
    for v in vals:
        if isinstance(v, ast.UnaryOp) and isinstance(v.op, ast.Not) and isinstance(v.operand, ast.Compare) and len(v.operand.ops) == 1 \
                and isinstance(v.operand.ops[0], dual.get(cmpop, ())):
            v = ast.Compare(left=v.operand.left, ops=[cmpop()], comparators=v.operand.comparators)
        if not (isinstance(v, ast.Compare) and len(v.ops) == 1 and isinstance(v.ops[0], cmpop)):
            return None
        l, r = v.left, v.comparators[0]
        if isinstance(l, ast.Attribute) and isinstance(r, ast.Attribute) and l.attr == r.attr and norm(l.value) == 'self':
            out.append(l.attr)
            continue
        # f(self.a) == f(other.a)
        la = [x for x in ast.walk(l) if isinstance(x, ast.Attribute) and norm(x.value) == 'self']
        ra = [x for x in ast.walk(r) if isinstance(x, ast.Attribute) and la and x.attr == la[0].attr and 'self' not in norm(x.value)]
        if len(la) == 1 and len(ra) == 1 and la[0].attr == ra[0].attr and not isinstance(l, ast.Attribute):
            out.append(la[0].attr + '~')
            continue
        return None
    return out


MUTANTS = [
    dict(name='indices-share-one-dict', file=PYX, find="_element_index = {}\n_isotope_index = {}\n", replace="_element_index = _isotope_index = {}\n", expect='C19-R3'),
    dict(name='integer-fast-path-through-a-contiguous-table', edits=[
        dict(file=PYX, find="_element_index = {}\n_isotope_index = {}\n", replace="_element_index = {}\n_isotope_index = {}\n_element_table = []\n"),
        dict(file=PYX, find="            _element_index[str(obj.atomic_number)] = obj\n", replace="            _element_index[str(obj.atomic_number)] = obj\n            _element_table.append(obj)\n    _element_table.sort(key=lambda element: element.atomic_number)\n"),
        dict(file=PYX, find="    if type(v) is Element:\n        return v\n", replace="    if type(v) is Element:\n        return v\n    if isinstance(v, int) and 0 < v <= len(_element_table):\n        return _element_table[v - 1]\n")], expect='C19-R3'),
    dict(name='wrong-Z', file=PYX, find="carbon = Element('carbon', 'C', 6,", replace="carbon = Element('carbon', 'C', 7,", expect='C19-R2'),
    dict(name='duplicate-element-symbol', file=PYX, find="Element('cobalt', 'Co', 27", replace="Element('cobalt', 'C', 27", expect='C19-R1'),
    dict(name='isotope-wrong-element', file=PYX, find="Isotope('carbon13', 'C13', carbon, 13,", replace="Isotope('carbon13', 'C13', boron, 13,", expect='C19-R2'),
    dict(name='weight-off-by-1u', file=PYX, find="Isotope('deuterium', 'D', hydrogen, 2, 2.0141017778)", replace="Isotope('deuterium', 'D', hydrogen, 2, 3.0141017778)", expect='C19-R2'),
    dict(name='mass-number-below-Z', file=PYX, find="Isotope('helium3', 'He3', helium, 3,", replace="Isotope('helium3', 'He3', helium, 1,", expect='C19-R2'),
    dict(name='eq-drops-field-kept-in-hash', file=PYX,
         find="return self.name == e.name and self.symbol == e.symbol and self.atomic_number == e.atomic_number and self.atomic_weight == e.atomic_weight",
         replace="return self.name == e.name and self.symbol == e.symbol and self.atomic_number == e.atomic_number", expect='C19-R4'),
    dict(name='hashed-field-public', file='cherab/core/atomic/elements.pxd',
         find="cdef class Element:\n\n    cdef readonly:\n        str name", replace="cdef class Element:\n\n    cdef public:\n        str name", expect='C19-R4'),
    dict(name='index-key-not-lowercased', file=PYX, find="_element_index[obj.symbol.lower()] = obj", replace="_element_index[obj.symbol] = obj", expect='C19-R3'),
    dict(name='isotope-index-drops-symbol-number', file=PYX, find="_isotope_index[obj.element.symbol.lower() + str(obj.mass_number)] = obj",
         replace="_isotope_index[obj.element.symbol.lower() + str(obj.atomic_number)] = obj", expect='C19-R3'),
    dict(name='lookup-not-lowercased', file=PYX, find="    key = str(v).lower()\n    try:\n        return _element_index[key]",
         replace="    key = str(v)\n    try:\n        return _element_index[key]", expect='C19-R3'),
    dict(name='isotope-Z-from-mass-number', file=PYX, find="super().__init__(name, symbol, element.atomic_number, atomic_weight)",
         replace="super().__init__(name, symbol, mass_number, atomic_weight)", expect='C19-R2'),
    dict(name='line-ne-not-dual', file=LINE, find="return self.element != line.element or self.charge != line.charge or self.transition != line.transition",
         replace="return self.element != line.element or self.charge != line.charge", expect='C19-R4'),
]
TWINS = [
    dict(name='hash-drops-field-only', file=PYX, find="return hash((self.name, self.symbol, self.atomic_number, self.atomic_weight))",
         replace="return hash((self.name, self.symbol, self.atomic_number))"),
    dict(name='weight-expression-refolded', file=PYX, find="(1.00784 + 1.00811) / 2", replace="0.5 * (1.00811 + 1.00784)"),
]
