"""Shared rule: a function does not change, in place, the arrays it was handed (directly, through a mapping argument's entries, or
through a loop over a literal sequence of them).  Used where the property says that results depend only on the inputs and that
calling twice with the same inputs gives the same answer."""
import ast

from ..program import dotted, norm
from ..flow import copy_kind

MUTATORS = ('sort', 'fill', 'resize', 'append', 'extend', 'clear', 'pop', 'update', 'itemset', 'put', 'setdefault', 'insert', 'remove')


def _base(v):
    while isinstance(v, ast.Subscript):
        v = v.value
    return v


def aliases(fn, seeds=None):
    """names that may denote (a view of) an object owned by the caller: parameters, entries / slices of them, loop variables over them
    or over literal sequences naming them"""
    ps = {a.arg for a in fn.args.posonlyargs + fn.args.args + fn.args.kwonlyargs if a.arg not in ('self', 'cls')}
    if seeds is not None:
        ps = set(seeds)
    alias = set(ps)
    grew = True
    while grew:
        grew = False
        for st in ast.walk(fn):
            new = set()
            if isinstance(st, ast.For):
                it = st.iter
                base = it.func.value if isinstance(it, ast.Call) and isinstance(it.func, ast.Attribute) and it.func.attr in ('values', 'items') else it
                if isinstance(base, ast.Name) and base.id in alias:
                    new |= {x.id for x in ast.walk(st.target) if isinstance(x, ast.Name)}
                elif isinstance(it, (ast.Tuple, ast.List)):
                    for e in it.elts:
                        if isinstance(st.target, ast.Name) and isinstance(_base(e), ast.Name) and _base(e).id in alias:
                            new.add(st.target.id)
                        elif isinstance(st.target, (ast.Tuple, ast.List)) and isinstance(e, (ast.Tuple, ast.List)) and len(e.elts) == len(st.target.elts):
                            for t, x in zip(st.target.elts, e.elts):
                                if isinstance(t, ast.Name) and isinstance(_base(x), ast.Name) and _base(x).id in alias:
                                    new.add(t.id)
            elif isinstance(st, ast.Assign) and len(st.targets) == 1 and isinstance(st.targets[0], ast.Name):
                v = _base(st.value)
                if isinstance(v, ast.Name) and v.id in alias:
                    new.add(st.targets[0].id)
                elif copy_kind(st.value, alias) == 'alias':
                    new.add(st.targets[0].id)          # np.asarray(x), x.reshape(..), x.T: the caller's array, or a view of it
            elif isinstance(st, ast.Assign) and len(st.targets) == 1 and isinstance(st.targets[0], (ast.Tuple, ast.List)) \
                    and isinstance(st.value, (ast.Tuple, ast.List)) and len(st.value.elts) == len(st.targets[0].elts):
                for t, x in zip(st.targets[0].elts, st.value.elts):
                    if isinstance(t, ast.Name) and isinstance(_base(x), ast.Name) and _base(x).id in alias:
                        new.add(t.id)
            if new - alias:
                alias |= new
                grew = True
    # a name whose every definition is a fresh copy is not an alias
    defs = {}
    for st in ast.walk(fn):
        if isinstance(st, ast.Assign) and len(st.targets) == 1 and isinstance(st.targets[0], ast.Name):
            defs.setdefault(st.targets[0].id, []).append(st.value)
    fresh = {n for n, vs in defs.items() if n not in ps and all(copy_kind(v, alias) == 'copy' for v in vs)}
    # rebinding an optional argument to a fresh object *when it is None* leaves the caller's object in place on the other path
    rebound = set()
    for st in ast.walk(fn):
        if isinstance(st, ast.Assign) and len(st.targets) == 1 and isinstance(st.targets[0], ast.Name) and copy_kind(st.value, alias) == 'copy':
            n = st.targets[0].id
            from ..flow import guards_of as _g, facts as _f
            fs = _f(_g(fn, st) or [])
            if n in ps and ((n, 'is', 'None') in fs or (n, '==', 'None') in fs):
                continue
            rebound.add(n)
    return ps, alias - fresh, rebound


def _arrayish(fn, names):
    """evidence in the function that one of `names` is an ndarray (so that 'x *= y' works in place rather than rebinding a number)"""
    for n in ast.walk(fn):
        if isinstance(n, ast.BinOp) and isinstance(n.op, ast.MatMult) and any(isinstance(x, ast.Name) and x.id in names for x in (n.left, n.right)):
            return True
        if isinstance(n, ast.Attribute) and n.attr in ('shape', 'T', 'ndim', 'dtype', 'size') and isinstance(n.value, ast.Name) and n.value.id in names:
            return True
        if isinstance(n, ast.Subscript) and isinstance(n.value, ast.Name) and n.value.id in names and isinstance(n.slice, (ast.Slice, ast.Tuple)):
            return True
        if isinstance(n, ast.Call) and dotted(n.func) in ('np.zeros_like', 'np.empty_like', 'np.ones_like') and n.args \
                and isinstance(n.args[0], ast.Name) and n.args[0].id in names:
            return True
    return False


def mutations(fn):
    """[(statement, text)] of in-place changes to caller-owned data"""
    ps, alias, rebound = aliases(fn)
    live = alias - rebound
    out = []
    for st in ast.walk(fn):
        bad = False
        if isinstance(st, ast.AugAssign):
            t = st.target
            if isinstance(t, ast.Subscript):
                b0 = _base(t)
                bad = isinstance(b0, ast.Name) and b0.id in live
            elif isinstance(t, ast.Name) and t.id in live:
                # in place only for arrays: need evidence that the object (any name of its alias class) is one
                bad = _arrayish(fn, live)
        elif isinstance(st, ast.Assign) and any(isinstance(t, ast.Subscript) for t in st.targets):
            for t in st.targets:
                if isinstance(t, ast.Subscript):
                    b0 = _base(t)
                    if isinstance(b0, ast.Name) and b0.id in live:
                        bad = True
        elif isinstance(st, ast.Expr) and isinstance(st.value, ast.Call) and isinstance(st.value.func, ast.Attribute) \
                and st.value.func.attr in MUTATORS and isinstance(_base(st.value.func.value), ast.Name) and _base(st.value.func.value).id in live:
            bad = True
        elif isinstance(st, ast.Call):
            for k in st.keywords:
                if k.arg == 'out' and isinstance(_base(k.value), ast.Name) and _base(k.value).id in live:
                    bad = True
        if bad:
            out.append((st, norm(st)[:70]))
    return out


def shrinking_iteration(fn):
    """[(loop, text of the iterated expression)]: loops over a node's live children list (no copy) whose body re-parents the loop variable --
    assigning .parent removes the element from the list being iterated."""
    out = []
    for lp in ast.walk(fn):
        if not (isinstance(lp, ast.For) and isinstance(lp.target, ast.Name)):
            continue
        it = lp.iter
        if not (isinstance(it, ast.Attribute) and it.attr == 'children'):
            continue
        v = lp.target.id
        for st in ast.walk(lp):
            if isinstance(st, ast.Assign) and any(isinstance(t, ast.Attribute) and t.attr == 'parent' and isinstance(t.value, ast.Name) and t.value.id == v
                                                  for t in st.targets):
                out.append((lp, norm(it)))
                break
    return out


_LIKE = ('np.zeros_like', 'np.empty_like', 'np.ones_like', 'np.full_like', 'numpy.zeros_like', 'numpy.empty_like', 'numpy.ones_like')
_NEW = ('np.zeros', 'np.empty', 'np.ones', 'np.full', 'numpy.zeros', 'numpy.empty', 'numpy.ones', 'numpy.full')


def typed_after_input(fn):
    """[(allocation stmt, buffer, model argument, foreign store)]: a result buffer that takes its dtype from an argument array
    (x_like(arg) without dtype=, or dtype=arg.dtype) and then receives values that do not come from that argument -- for an
    integer-typed argument they are truncated."""
    ps, alias, rebound = aliases(fn)
    live = alias - rebound
    out = []
    for st in ast.walk(fn):
        if not (isinstance(st, ast.Assign) and len(st.targets) == 1 and isinstance(st.targets[0], ast.Name) and isinstance(st.value, ast.Call)):
            continue
        c, model = st.value, None
        d = dotted(c.func) or ''
        if d in _LIKE and c.args and not any(k.arg == 'dtype' for k in c.keywords) and isinstance(_base(c.args[0]), ast.Name) and _base(c.args[0]).id in live:
            model = _base(c.args[0]).id
        elif d in _NEW:
            for k in c.keywords:
                if k.arg == 'dtype':
                    ns = [x.id for x in ast.walk(k.value) if isinstance(x, ast.Name) and x.id in live]
                    if ns:
                        model = ns[0]
        if model is None:
            continue
        buf = st.targets[0].id
        for s2 in ast.walk(fn):
            tg = s2.targets if isinstance(s2, ast.Assign) else ([s2.target] if isinstance(s2, ast.AugAssign) else [])
            if any(isinstance(t, ast.Subscript) and isinstance(_base(t), ast.Name) and _base(t).id == buf for t in tg):
                names = {x.id for x in ast.walk(s2.value) if isinstance(x, ast.Name)}
                v = s2.value
                same = isinstance(_base(v), ast.Name) and _base(v).id == model
                if not same and not isinstance(v, ast.Constant):
                    out.append((st, buf, model, s2))
                    break
    return out


def alias_roots(fn):
    """name -> parameters it may alias"""
    out = {}
    for a in fn.args.posonlyargs + fn.args.args + fn.args.kwonlyargs:
        if a.arg in ('self', 'cls'):
            continue
        ps, al, rb = aliases(fn, seeds=[a.arg])
        for n in al:
            out.setdefault(n, set()).add(a.arg)
    return out


def optional_params(fn):
    """parameters with a default of None"""
    args = fn.args.args
    out = set()
    for a, d in zip(args[len(args) - len(fn.args.defaults):], fn.args.defaults):
        if isinstance(d, ast.Constant) and d.value is None:
            out.add(a.arg)
    for a, d in zip(fn.args.kwonlyargs, fn.args.kw_defaults):
        if isinstance(d, ast.Constant) and d.value is None:
            out.add(a.arg)
    return out


def returns_held_buffer(fn):
    """[(return stmt, field)]: the function fills an array and returns it, and the same object is kept in a field of self (assigned in
    this function or read back from it): the next call rewrites the array a caller may still hold."""
    held = {}        # local name -> field
    for st in ast.walk(fn):
        if isinstance(st, ast.Assign):
            fields = [dotted(t)[5:] for t in st.targets if isinstance(t, ast.Attribute) and (dotted(t) or '').startswith('self.') and dotted(t).count('.') == 1]
            names = [t.id for t in st.targets if isinstance(t, ast.Name)]
            v = st.value
            if fields and (names or isinstance(v, ast.Name)):
                for n in names + ([v.id] if isinstance(v, ast.Name) else []):
                    held[n] = fields[0]
            if names and not fields:
                src = None
                if isinstance(v, ast.Attribute) and (dotted(v) or '').startswith('self.') and dotted(v).count('.') == 1:
                    src = dotted(v)[5:]
                elif isinstance(v, ast.Call) and dotted(v.func) == 'getattr' and len(v.args) >= 2 and norm(v.args[0]) == 'self' \
                        and isinstance(v.args[1], ast.Constant) and isinstance(v.args[1].value, str):
                    src = v.args[1].value
                if src:
                    for n in names:
                        held[n] = src
    if not held:
        return []
    # views of the held names (memoryview aliases: x_mv = x)
    views = dict(held)
    grew = True
    while grew:
        grew = False
        for st in ast.walk(fn):
            if isinstance(st, ast.Assign) and len(st.targets) == 1 and isinstance(st.targets[0], ast.Name) and isinstance(st.value, ast.Name) \
                    and st.value.id in views and st.targets[0].id not in views:
                views[st.targets[0].id] = views[st.value.id]
                grew = True
    written = set()
    for st in ast.walk(fn):
        tg = st.targets if isinstance(st, ast.Assign) else ([st.target] if isinstance(st, ast.AugAssign) else [])
        for t in tg:
            if isinstance(t, ast.Subscript) and isinstance(_base(t), ast.Name) and _base(t).id in views:
                written.add(views[_base(t).id])
    out = []
    for r in ast.walk(fn):
        if isinstance(r, ast.Return) and isinstance(r.value, ast.Name) and r.value.id in views and views[r.value.id] in written:
            out.append((r, views[r.value.id]))
    return out


def carried_between_iterations(fn):
    """[(statement, name)]: inside a loop a name that exists before the loop (a parameter or an earlier local) is rebound to a value computed
    from itself, and that name is then read by other statements of the same iteration: what one iteration computes depends on the iterations
    before it (the term of the i-th species contains the velocities of the species before it).  Accumulators -- names only updated in the
    loop and read after it -- are not reported."""
    out = []
    params = {a.arg for a in fn.args.posonlyargs + fn.args.args + fn.args.kwonlyargs}
    for lp in ast.walk(fn):
        if not isinstance(lp, (ast.For, ast.While)):
            continue
        body_stmts = [st for b in lp.body for st in ast.walk(b)]
        for st in body_stmts:
            if not (isinstance(st, ast.Assign) and len(st.targets) == 1 and isinstance(st.targets[0], ast.Name)):
                continue
            n = st.targets[0].id
            if not any(isinstance(x, ast.Name) and x.id == n for x in ast.walk(st.value)):
                continue
            before = n in params or any(isinstance(s2, ast.Assign) and any(isinstance(t, ast.Name) and t.id == n for t in s2.targets) and s2.lineno < lp.lineno
                                        for s2 in ast.walk(fn))
            if not before:
                continue
            # an accumulation 'n = n + term' / 'n = n * term' whose result is only read after the loop is the ordinary idiom
            readers = [s2 for s2 in body_stmts if s2 is not st and isinstance(s2, (ast.Assign, ast.AugAssign, ast.Expr, ast.Return, ast.If))
                       and any(isinstance(x, ast.Name) and x.id == n and isinstance(x.ctx, ast.Load)
                               for x in ast.walk(s2.value if not isinstance(s2, ast.If) else s2.test))
                       and not (isinstance(s2, ast.AugAssign) and isinstance(s2.target, ast.Name) and s2.target.id == n)]
            if readers:
                out.append((st, n))
    return out


def swapped_arguments(prog, mi):
    """[(call, callee name, argument name, parameter it lands in)]: a positional argument that is a plain name identical to the name of
    *another* parameter of the resolved callee (a constructor or function of the analysed program), while the parameter of its own name is
    given something else -- two arrays of the same type passed in the wrong order raise no error."""
    out = []
    callees = {}
    for c in prog.classes.values():
        init = c.methods.get('__init__')
        if init is not None:
            callees.setdefault(c.name, []).append((init, True))
    for m in prog.modules.values():
        for n, f in m.functions.items():
            callees.setdefault(n, []).append((f, False))
    # self.method(a, b): the method of the class (or of a base class in the program)
    for ci in prog.classes.values():
        if ci.mod is not mi:
            continue
        for mname, m in list(ci.methods.items()) + list(ci.getters.items()) + list(ci.setters.items()):
            for call in [c for c in ast.walk(m) if isinstance(c, ast.Call) and isinstance(c.func, ast.Attribute) and isinstance(c.func.value, ast.Name)
                         and c.func.value.id == 'self' and len(c.args) >= 2 and not any(isinstance(a, ast.Starred) for a in c.args)]:
                owner = prog.find_method(ci, call.func.attr)
                if not owner or owner[1] is None:
                    continue
                callee = owner[1]
                ps = [a.arg for a in callee.args.posonlyargs + callee.args.args]
                if any(dotted(d) == 'staticmethod' for d in callee.decorator_list):
                    pass                                    # no receiver parameter
                elif ps and ps[0] in ('self', 'cls'):
                    ps = ps[1:]
                else:
                    continue
                bound = dict(zip(ps, call.args))
                for k in call.keywords:
                    if k.arg:
                        bound[k.arg] = k.value
                for p_, a in zip(ps, call.args):
                    if isinstance(a, ast.Name) and a.id != p_ and a.id in ps:
                        other = bound.get(a.id)
                        if other is None or not (isinstance(other, ast.Name) and other.id == a.id):
                            out.append((call, 'self.' + call.func.attr, a.id, p_))
    for fn in [n for n in ast.walk(mi.tree) if isinstance(n, ast.FunctionDef)]:
        for call in [c for c in ast.walk(fn) if isinstance(c, ast.Call)]:
            if isinstance(call.func, ast.Name) and call.func.id in callees:
                cname = call.func.id
            elif isinstance(call.func, ast.Attribute) and isinstance(call.func.value, ast.Name) and call.func.attr in callees \
                    and str(mi.imports.get(call.func.value.id, '')).startswith('cherab'):
                cname = call.func.attr               # package.function(...): a function reached through an imported package of the program
            else:
                continue
            cands = callees[cname]
            own = dict.get(mi.functions, cname) if isinstance(call.func, ast.Name) else None
            if own is not None:
                cands = [(own, False)]          # a function of the same module is the one the bare name denotes
            if len(cands) != 1 or len(call.args) < 2:
                continue
            callee, skip = cands[0]
            ps = [a.arg for a in callee.args.posonlyargs + callee.args.args]
            if skip:
                ps = ps[1:]
            if any(isinstance(a, ast.Starred) for a in call.args):
                continue
            bound = dict(zip(ps, call.args))
            for k in call.keywords:
                if k.arg:
                    bound[k.arg] = k.value
            for p, a in zip(ps, call.args):
                if isinstance(a, ast.Name) and a.id != p and a.id in ps:
                    other = bound.get(a.id)
                    if other is None or not (isinstance(other, ast.Name) and other.id == a.id):
                        out.append((call, cname, a.id, p))
    return out


_NO_COPY = ('asarray', 'ascontiguousarray', 'asanyarray', 'asfortranarray', 'atleast_1d', 'atleast_2d', 'atleast_3d', 'require', 'ravel',
            'reshape', 'squeeze', 'transpose')


def may_be_callers_array(fn, v, depth=0):
    """the parameter whose array object the expression `v` may be (not a copy of it): the parameter itself, a view of it, or one of numpy's
    as-array conversions, which return their argument when it already has the requested type and layout; None when `v` is a new array"""
    params = {a.arg for a in fn.args.posonlyargs + fn.args.args + fn.args.kwonlyargs} - {'self'}
    if isinstance(v, ast.Name):
        if v.id in params:
            rebound = [st for st in ast.walk(fn) if isinstance(st, ast.Assign) and any(isinstance(t, ast.Name) and t.id == v.id for t in st.targets)]
            if not rebound:
                return v.id
            return next((r for r in (may_be_callers_array(fn, st.value, depth + 1) for st in rebound) if r), None) if depth < 4 else None
        defs = [st for st in ast.walk(fn) if isinstance(st, ast.Assign) and any(isinstance(t, ast.Name) and t.id == v.id for t in st.targets)]
        if depth < 4:
            for st in defs:
                r = may_be_callers_array(fn, st.value, depth + 1)
                if r:
                    return r
        return None
    if isinstance(v, ast.IfExp):
        return may_be_callers_array(fn, v.body, depth) or may_be_callers_array(fn, v.orelse, depth)
    if isinstance(v, ast.Attribute) and v.attr in ('T', 'base', 'real'):
        return may_be_callers_array(fn, v.value, depth)
    if isinstance(v, ast.Subscript) and (isinstance(v.slice, ast.Slice) or (isinstance(v.slice, ast.Tuple) and any(isinstance(e, ast.Slice) for e in v.slice.elts))):
        return may_be_callers_array(fn, v.value, depth)            # basic slicing: a view
    if isinstance(v, ast.Call):
        f = dotted(v.func) or ''
        last = v.func.attr if isinstance(v.func, ast.Attribute) else f.rsplit('.', 1)[-1]
        kw = {k.arg: k.value for k in v.keywords}
        if last in _NO_COPY and f.split('.')[0] in ('np', 'numpy') and v.args:
            return may_be_callers_array(fn, v.args[0], depth)
        if last == 'array' and f.split('.')[0] in ('np', 'numpy') and v.args and isinstance(kw.get('copy'), ast.Constant) and kw['copy'].value in (False, None):
            return may_be_callers_array(fn, v.args[0], depth)
        if isinstance(v.func, ast.Attribute) and last in ('view', 'reshape', 'ravel', 'squeeze', 'transpose', 'swapaxes'):
            return may_be_callers_array(fn, v.func.value, depth)
        if isinstance(v.func, ast.Attribute) and last == 'astype' and isinstance(kw.get('copy'), ast.Constant) and kw['copy'].value is False:
            return may_be_callers_array(fn, v.func.value, depth)
    return None


def stale_loop_variable(fn):
    """[(node, variable, list name)]: a loop fills a list with its loop variable (L.append(v)), a later loop iterates over that list with its
    own variable w, and its body still reads v -- which is the *last* element the first loop saw, the same for every iteration."""
    out = []

    def blocks(node):
        for f in ('body', 'orelse', 'finalbody'):
            b = getattr(node, f, None)
            if isinstance(b, list) and b and isinstance(b[0], ast.stmt):
                yield b
        if isinstance(node, ast.Try):
            for h in node.handlers:
                yield h.body
    for node in ast.walk(fn):
        for body in blocks(node):
            for k, a in enumerate(body):
                if not (isinstance(a, ast.For) and isinstance(a.target, ast.Name)):
                    continue
                v = a.target.id
                filled = {c.func.value.id for c in ast.walk(a) if isinstance(c, ast.Call) and isinstance(c.func, ast.Attribute)
                          and c.func.attr == 'append' and isinstance(c.func.value, ast.Name) and len(c.args) == 1
                          and any(isinstance(x, ast.Name) and x.id == v for x in ast.walk(c.args[0]))}
                if not filled:
                    continue
                for b in body[k + 1:]:
                    if any(isinstance(t, ast.Name) and t.id == v and isinstance(t.ctx, ast.Store) for t in ast.walk(b)):
                        break                                  # rebound: no longer the first loop's variable
                    if isinstance(b, ast.For) and isinstance(b.iter, ast.Name) and b.iter.id in filled and isinstance(b.target, ast.Name) \
                            and b.target.id != v:
                        for r in ast.walk(b):
                            if isinstance(r, ast.Name) and r.id == v and isinstance(r.ctx, ast.Load):
                                out.append((r, v, b.iter.id, b.target.id))
                                break
    return out


def ascending_index_deletion(fn):
    """[(del node, container, index list)]: positions collected in ascending order (while enumerating the container) are deleted one by
    one in that same order -- every deletion shifts the later positions down, so from the second deletion on the wrong entries go."""
    out = []
    for loop in ast.walk(fn):
        if not (isinstance(loop, ast.For) and isinstance(loop.target, ast.Name) and isinstance(loop.iter, ast.Name)):
            continue
        i, idx = loop.target.id, loop.iter.id
        dels = []
        for st in ast.walk(loop):
            if isinstance(st, ast.Delete):
                for t in st.targets:
                    if isinstance(t, ast.Subscript) and isinstance(t.slice, ast.Name) and t.slice.id == i:
                        dels.append((st, norm(t.value)))
            elif isinstance(st, ast.Call) and isinstance(st.func, ast.Attribute) and st.func.attr == 'pop' and len(st.args) == 1 \
                    and isinstance(st.args[0], ast.Name) and st.args[0].id == i:
                dels.append((st, norm(st.func.value)))
        for d, cont in dels:
            # the index list was filled with the counter of an enumeration of the same container
            for e in ast.walk(fn):
                if isinstance(e, ast.For) and e is not loop and isinstance(e.iter, ast.Call) and dotted(e.iter.func) == 'enumerate' and e.iter.args \
                        and norm(e.iter.args[0]) == cont and isinstance(e.target, ast.Tuple) and isinstance(e.target.elts[0], ast.Name):
                    cnt = e.target.elts[0].id
                    if any(isinstance(c, ast.Call) and isinstance(c.func, ast.Attribute) and c.func.attr == 'append' and norm(c.func.value) == idx
                           and len(c.args) == 1 and isinstance(c.args[0], ast.Name) and c.args[0].id == cnt for c in ast.walk(e)):
                        out.append((d, cont, idx))
    return out


def traversed_more_than_once(fn):
    """{parameter: [nodes]} for parameters the function iterates over more than once (loops, comprehensions, any / all / sum / min / max /
    sorted / list / tuple over them) without having bound a materialised copy to the name first: a one-shot iterable (zip, map, a
    generator) is exhausted by the first traversal and the second sees nothing."""
    params = {a.arg for a in fn.args.posonlyargs + fn.args.args + fn.args.kwonlyargs} - {'self', 'cls'}
    rebound = {t.id for st in ast.walk(fn) if isinstance(st, ast.Assign) for t in st.targets if isinstance(t, ast.Name)}
    out = {}
    for n in ast.walk(fn):
        its = []
        if isinstance(n, ast.For):
            its = [n.iter]
        elif isinstance(n, (ast.ListComp, ast.SetComp, ast.DictComp, ast.GeneratorExp)):
            its = [g.iter for g in n.generators]
        elif isinstance(n, ast.Call) and dotted(n.func) in ('any', 'all', 'sum', 'min', 'max', 'sorted', 'list', 'tuple', 'set', 'enumerate', 'zip') and n.args:
            its = [a for a in n.args if isinstance(a, ast.Name)]
        for it in its:
            while isinstance(it, ast.Call) and dotted(it.func) in ('enumerate', 'iter', 'reversed') and it.args:
                it = it.args[0]
            if isinstance(it, ast.Name) and it.id in params and it.id not in rebound:
                out.setdefault(it.id, []).append(n)
    return {k: v for k, v in out.items() if len(v) > 1}


def misaligned_key_value_pairs(fn):
    """[(zip call, mapping)]: zip(<keys of D put in another order>, D.values()) -- the values come in the mapping's own (insertion) order, the
    keys sorted / reversed: from the first position where the two orders differ each key is paired with another key's value."""
    defs = {}
    for st in ast.walk(fn):
        if isinstance(st, ast.Assign) and len(st.targets) == 1 and isinstance(st.targets[0], ast.Name):
            defs.setdefault(st.targets[0].id, []).append(st.value)
    out = []

    def reordered_keys_of(e, depth=0):
        """the mapping whose keys e lists in sorted / reversed order, else None"""
        if isinstance(e, ast.Name) and e.id in defs and depth < 3:
            for v in defs[e.id]:
                r = reordered_keys_of(v, depth + 1)
                if r:
                    return r
            return None
        for c in ast.walk(e):
            if isinstance(c, ast.Call) and dotted(c.func) in ('sorted', 'reversed') and c.args:
                a = c.args[0]
                if isinstance(a, ast.Call) and isinstance(a.func, ast.Attribute) and a.func.attr == 'keys':
                    a = a.func.value
                if isinstance(a, (ast.Name, ast.Attribute, ast.Subscript)):
                    return norm(a)
        return None
    for c in ast.walk(fn):
        if isinstance(c, ast.Call) and dotted(c.func) == 'zip' and len(c.args) == 2:
            for k, v in ((c.args[0], c.args[1]), (c.args[1], c.args[0])):
                if isinstance(v, ast.Call) and isinstance(v.func, ast.Attribute) and v.func.attr == 'values' and not v.args:
                    d = reordered_keys_of(k)
                    if d and d == norm(v.func.value):
                        out.append((c, d))
    return out


def truncated_near_integer(fn):
    """[(int call, name)]: a quotient q = a / b is accepted as 'an integer to within rounding' (abs(round(q) - q) compared with a
    tolerance) and then converted with int(q): int() truncates, so a q that is an integer minus a rounding error (6.9999999) becomes the
    integer below it -- the conversion that matches the test is round(q)."""
    quot = {}
    for st in ast.walk(fn):
        if isinstance(st, ast.Assign) and len(st.targets) == 1 and isinstance(st.targets[0], ast.Name) and isinstance(st.value, ast.BinOp) \
                and isinstance(st.value.op, ast.Div):
            quot[st.targets[0].id] = st
    out = []
    for q in quot:
        tested = any(isinstance(c, ast.Compare) and any(isinstance(x, ast.Call) and dotted(x.func) in ('round', 'np.round', 'np.rint', 'numpy.round') and x.args
                                                        and isinstance(x.args[0], ast.Name) and x.args[0].id == q for x in ast.walk(c))
                     for c in ast.walk(fn))
        if not tested:
            continue
        for c in ast.walk(fn):
            if isinstance(c, ast.Call) and dotted(c.func) in ('int', 'math.floor', 'np.floor', 'floor') and len(c.args) == 1 \
                    and isinstance(c.args[0], ast.Name) and c.args[0].id == q:
                out.append((c, q))
            elif isinstance(c, ast.Call) and dotted(c.func) == '__cast__' and len(c.args) == 2 and isinstance(c.args[0], ast.Constant) \
                    and c.args[0].value in ('int', 'long') and isinstance(c.args[1], ast.Name) and c.args[1].id == q:
                out.append((c, q))
    return out


def falsy_numeric_default(fn):
    """[(node, name)]: 'x or default' (or 'x if x else default') with a numeric default: the number 0 is a legal value of x and is replaced by
    the default as if the argument had not been given."""
    numeric_params = {a.arg for a in fn.args.posonlyargs + fn.args.args + fn.args.kwonlyargs
                      if (isinstance(a.annotation, ast.Constant) and str(a.annotation.value) in ('double', 'float', 'int', 'long', 'Py_ssize_t'))
                      or getattr(a, 'cy_type', None) in ('double', 'float', 'int', 'long', 'Py_ssize_t')}

    def numeric(e):
        if isinstance(e, ast.UnaryOp) and isinstance(e.op, (ast.USub, ast.UAdd)):
            return numeric(e.operand)
        if isinstance(e, ast.Constant):
            return isinstance(e.value, (int, float)) and not isinstance(e.value, bool)
        if isinstance(e, ast.Name):
            return e.id in numeric_params or e.id in ('INFINITY', 'inf', 'NAN', 'nan')
        if isinstance(e, ast.Attribute):
            return e.attr in ('inf', 'infty', 'Inf', 'nan', 'pi')
        if isinstance(e, ast.Call):
            f_ = (dotted(e.func) or '').rsplit('.', 1)[-1]
            return f_ == 'float' or (f_ in ('exp', 'sqrt', 'log', 'log10') and len(e.args) == 1 and numeric(e.args[0]))
        return False
    out = []
    for n in ast.walk(fn):
        if isinstance(n, ast.BoolOp) and isinstance(n.op, ast.Or) and len(n.values) == 2 and isinstance(n.values[0], ast.Name) and numeric(n.values[1]):
            out.append((n, n.values[0].id))
        elif isinstance(n, ast.IfExp) and isinstance(n.test, ast.Name) and isinstance(n.body, ast.Name) and n.body.id == n.test.id and numeric(n.orelse):
            out.append((n, n.test.id))
    return out


_SIDE = {}


def _side_load(modname):
    """a module of the package that the check did not load, parsed on its own (only its top-level names are used)"""
    if modname in _SIDE:
        return _SIDE[modname]
    import os
    from ..report import REPO
    from ..program import Program
    m = None
    if modname.startswith('cherab'):
        base = modname.replace('.', '/')
        for rel in (base + '/__init__.py', base + '.py', base + '.pyx'):
            if os.path.exists(os.path.join(REPO, rel)):
                try:
                    p = Program()
                    p.load_many([rel])
                    m = p.modules.get(modname)
                except Exception:
                    m = None
                break
    _SIDE[modname] = m
    return m


def _star_names(prog, modname, depth):
    """public top-level names of a package-internal module reached by 'from m import *' (None: not loaded / not resolvable)"""
    if prog is None or depth > 4:
        return None
    m = prog.modules.get(modname) or _side_load(modname)
    if m is None:
        return None
    out = set(dict.keys(m.functions)) | set(m.classes) | set(m.assigns) | set(m.imports)
    for st in m.tree.body:
        if isinstance(st, (ast.FunctionDef, ast.ClassDef)):
            continue
        for t in ast.walk(st):
            if isinstance(t, ast.Name) and isinstance(t.ctx, ast.Store):
                out.add(t.id)
    for sm in m.star_imports:
        sub = _star_names(prog, sm, depth + 1)
        if sub is None:
            return None
        out |= sub
    return {n for n in out if not n.startswith('_')}


def never_bound_names(fn, mi, prog=None):
    """[(Name node)]: names the function reads that are bound nowhere -- not a parameter, never assigned in the function (on any path), not a
    module-level definition / import (of the module or of its declaration file), not a builtin: reading them raises NameError /
    UnboundLocalError.  (The typical cause is a deleted or renamed defining statement.)  Modules with star imports are skipped."""
    import builtins
    star = set()
    for sm in (getattr(mi, 'star_imports', None) or []):
        names = _star_names(prog, sm, 0)
        if names is None:
            return []
        star |= names
    if getattr(fn, '_inlined', None) or any(isinstance(n, ast.Name) and n.id.startswith('__h') for n in ast.walk(fn)):
        return []            # helpers of other modules were expanded into this body: their names belong to those modules
    pm = prog.modules.get(mi.name + '#pxd') if prog is not None else None
    for sm in (pm.star_imports if pm is not None else []):
        names = _star_names(prog, sm, 0)
        if names is None:
            return []
        star |= names
    known = star | set(dir(builtins)) | {'__cast__', 'sizeof', 'NULL', '__file__', '__name__', '__doc__', '__cy_unsupported__', '__last__', 'cython', 'self', 'cls'}
    known |= set(dict.keys(mi.functions)) | set(mi.classes) | set(mi.assigns) | set(mi.imports)
    if pm is not None:
        known |= set(dict.keys(pm.functions)) | set(pm.classes) | set(pm.assigns) | set(pm.imports)
    for st in ast.walk(mi.tree):
        if isinstance(st, (ast.FunctionDef, ast.ClassDef)) and st in mi.tree.body:
            continue
    for st in mi.tree.body:
        if isinstance(st, (ast.FunctionDef, ast.ClassDef)):
            known.add(st.name)
            continue
        for t in ast.walk(st):
            if isinstance(t, ast.Name) and isinstance(t.ctx, ast.Store):
                known.add(t.id)
            elif isinstance(t, ast.alias):
                known.add((t.asname or t.name).split('.')[0])
    if pm is not None:
        for st in pm.tree.body:
            for t in ast.walk(st):
                if isinstance(t, ast.Name) and isinstance(t.ctx, ast.Store):
                    known.add(t.id)
                elif isinstance(t, ast.alias):
                    known.add((t.asname or t.name).split('.')[0])
                elif isinstance(t, (ast.FunctionDef, ast.ClassDef)):
                    known.add(t.name)
    bound = set()
    aug = {id(n.target) for n in ast.walk(fn) if isinstance(n, ast.AugAssign)}      # 'x += 1' reads x before it binds it
    augnames = {n.target.id for n in ast.walk(fn) if isinstance(n, ast.AugAssign) and isinstance(n.target, ast.Name)}
    # 'cdef double x' declares and does not assign: an accumulator that is only ever declared and augmented starts from an undefined value
    decl = {id(n.target) for n in ast.walk(fn) if isinstance(n, ast.AnnAssign) and n.value is None and isinstance(n.target, ast.Name)
            and (n.target.id in augnames or ':' in str(getattr(n, 'cy_type', '') or ''))}     # ... and a memoryview that is never assigned is unusable
    for n in ast.walk(fn):
        if isinstance(n, ast.arg):
            bound.add(n.arg)
        elif isinstance(n, ast.Name) and isinstance(n.ctx, (ast.Store, ast.Del)) and id(n) not in aug and id(n) not in decl:
            bound.add(n.id)
        elif isinstance(n, (ast.FunctionDef, ast.ClassDef)) and n is not fn:
            bound.add(n.name)
        elif isinstance(n, ast.alias):
            bound.add((n.asname or n.name).split('.')[0])
        elif isinstance(n, ast.ExceptHandler) and n.name:
            bound.add(n.name)
        elif isinstance(n, (ast.Global, ast.Nonlocal)):
            bound |= set(n.names)
        elif isinstance(n, ast.AnnAssign) and isinstance(n.target, ast.Name) and id(n.target) not in decl:
            bound.add(n.target.id)
    out, seen = [], set()
    deco = {id(x) for d in fn.decorator_list for x in ast.walk(d)}       # '@prop.setter' names live in the class scope
    for n in ast.walk(fn):
        if id(n) in deco:
            continue
        if isinstance(n, ast.Name) and (isinstance(n.ctx, ast.Load) or id(n) in aug) and n.id not in bound and n.id not in known \
                and n.id not in seen and not n.id.startswith('__'):
            seen.add(n.id)
            out.append(n)
    return out


def sum_accumulators(fn):
    """[(name, init node or None, [(op class, term node, stmt)], loop)] for the running sums of a function: a name updated by an augmented
    assignment inside a loop and initialised before that loop at the same block level.  Used by rules that say 'X is the sum of T over L':
    the initial value must be zero and every update an addition -- a '-=' or a non-zero start is a different quantity."""
    out = []

    def blocks(node):
        for f in ('body', 'orelse', 'finalbody'):
            b = getattr(node, f, None)
            if isinstance(b, list) and b and isinstance(b[0], ast.stmt):
                yield b
    for node in ast.walk(fn):
        for body in blocks(node):
            for k, lp in enumerate(body):
                if not isinstance(lp, (ast.For, ast.While)):
                    continue
                ups = {}
                for st in ast.walk(lp):
                    if isinstance(st, ast.AugAssign) and isinstance(st.target, ast.Name):
                        ups.setdefault(st.target.id, []).append((type(st.op), st.value, st))
                for name, us in ups.items():
                    init = None
                    for prev in body[:k]:
                        if isinstance(prev, ast.Assign) and len(prev.targets) == 1 and isinstance(prev.targets[0], ast.Name) and prev.targets[0].id == name:
                            init = prev
                    out.append((name, init, us, lp))
    return out


def check_sum(run, rule, key, relpath, fn, name, what):
    """the running sum `name` of fn starts at zero and only adds: reports the deviations, returns True when it has the form"""
    accs = [a for a in sum_accumulators(fn) if a[0] == name]
    if not accs:
        return False
    ok = True
    for nm, init, us, lp in accs:
        if init is not None and not (isinstance(init.value, ast.Constant) and init.value.value in (0, 0.0)):
            if isinstance(init.value, ast.Constant) and isinstance(init.value.value, (int, float)):
                run.subject(rule)
                run.fail(rule, key + '|start:' + nm, relpath, init.lineno, "%s: the running sum '%s' starts at %s, not at zero" % (what, nm, norm(init.value)))
                ok = False
        for op, term, st in us:
            if op is ast.Sub:
                run.subject(rule)
                run.fail(rule, key + '|subtracts:' + nm, relpath, st.lineno, "%s: '%s' has %s subtracted where the terms of a sum are added" % (what, nm, norm(term)[:50]))
                ok = False
            elif op in (ast.Mult, ast.Div):
                run.subject(rule)
                run.fail(rule, key + '|scaled:' + nm, relpath, st.lineno, "%s: '%s' is multiplied / divided inside the loop (%s) where the terms of a sum are added" % (what, nm, norm(st)[:50]))
                ok = False
    return ok


def fields_never_written(prog, ci):
    """[(node, field)]: private fields a pure-Python class reads through self that no class of its hierarchy ever assigns (and no declaration
    file declares): the read raises AttributeError.  Only for classes whose bases are all in the analysed program or are plain `object`."""
    if ci.mod.is_cython:
        return []
    mro = prog.mro(ci)
    if prog.external_bases(ci):
        ext = [b for b in prog.external_bases(ci) if b not in ('object',)]
        if ext:
            return []
    written, declared = set(), set()
    for c in mro:
        declared |= set(c.fields)
        for m in list(c.methods.values()) + list(c.getters.values()) + list(c.setters.values()):
            for n in ast.walk(m):
                if isinstance(n, ast.Attribute) and isinstance(n.ctx, (ast.Store, ast.Del)) and isinstance(n.value, ast.Name) and n.value.id == 'self':
                    written.add(n.attr)
                elif isinstance(n, ast.Call) and dotted(n.func) == 'setattr' and len(n.args) >= 2 and norm(n.args[0]) == 'self':
                    if isinstance(n.args[1], ast.Constant):
                        written.add(n.args[1].value)
                    else:
                        return []
        for st in c.node.body:
            for t in ast.walk(st):
                if isinstance(t, ast.Name) and isinstance(t.ctx, ast.Store):
                    written.add(t.id)                      # class-level attribute
    out, seen = [], set()
    for m in list(ci.methods.values()) + list(ci.getters.values()) + list(ci.setters.values()):
        for n in ast.walk(m):
            if isinstance(n, ast.Attribute) and isinstance(n.ctx, ast.Load) and isinstance(n.value, ast.Name) and n.value.id == 'self' \
                    and n.attr.startswith('_') and not n.attr.startswith('__') and n.attr not in written and n.attr not in declared and n.attr not in seen:
                # a method of the hierarchy?
                if any(n.attr in c.methods or n.attr in c.getters for c in mro):
                    continue
                seen.add(n.attr)
                out.append((n, n.attr))
    return out



def miscounted_collection_loops(fn):
    """[(node, what)]: 'c = 0; L = []; while c != N: ... c += 1; L.append(v)' collects exactly N values.  Reported: a start value other than
    0 or a step other than 1 while one value is appended per step (N - start values, or every other count, are collected), and a loop
    whose condition names are never assigned in its body and which has no other exit (it never ends, or never runs)."""
    out = []

    def blocks(node):
        for f in ('body', 'orelse', 'finalbody'):
            b = getattr(node, f, None)
            if isinstance(b, list) and b and isinstance(b[0], ast.stmt):
                yield b
        for h in getattr(node, 'handlers', []) or []:
            yield h.body

    def visit(stmts):
        for i, st in enumerate(stmts):
            if isinstance(st, ast.While) and isinstance(st.test, ast.Compare) and len(st.test.ops) == 1 and isinstance(st.test.left, ast.Name) \
                    and isinstance(st.test.ops[0], (ast.NotEq, ast.Lt)):
                c = st.test.left.id
                inner = [n for b in st.body for n in ast.walk(b)]
                stores = [n for n in inner if isinstance(n, ast.Name) and isinstance(n.ctx, ast.Store)]
                tnames = {n.id for n in ast.walk(st.test) if isinstance(n, ast.Name)}
                exits = [n for n in inner if isinstance(n, (ast.Break, ast.Return, ast.Raise))]
                if not any(isinstance(n, ast.Call) for n in ast.walk(st.test)) and not exits and not (tnames & {n.id for n in stores}) \
                        and not any(isinstance(n, (ast.Attribute, ast.Subscript)) for n in ast.walk(st.test)):
                    out.append((st, "the loop 'while %s' changes none of the names of its condition and has no other exit" % ast.unparse(st.test)))
                incs = [(b, n) for outer in [st] + [x for x in inner if hasattr(x, 'body')] for b in blocks(outer) for n in b
                        if isinstance(n, ast.AugAssign) and isinstance(n.target, ast.Name) and n.target.id == c]
                if len(incs) == 1 and isinstance(incs[0][1].op, ast.Add) and isinstance(incs[0][1].value, ast.Constant) \
                        and len([n for n in stores if n.id == c]) == 1:
                    blk, inc = incs[0]
                    apps = [n for n in blk if isinstance(n, ast.Expr) and isinstance(n.value, ast.Call) and isinstance(n.value.func, ast.Attribute)
                            and n.value.func.attr == 'append' and isinstance(n.value.func.value, ast.Name) and len(n.value.args) == 1]
                    if len(apps) == 1 and not any(isinstance(x, ast.Name) and x.id == c for x in ast.walk(apps[0].value.args[0])):
                        L = apps[0].value.func.value.id
                        init = [p for p in stmts[:i] if isinstance(p, ast.Assign) and len(p.targets) == 1 and isinstance(p.targets[0], ast.Name)
                                and p.targets[0].id == c]
                        linit = [p for p in stmts[:i] if isinstance(p, ast.Assign) and len(p.targets) == 1 and isinstance(p.targets[0], ast.Name)
                                 and p.targets[0].id == L and isinstance(p.value, ast.List) and not p.value.elts]
                        if linit and init and isinstance(init[-1].value, ast.Constant) and isinstance(init[-1].value.value, int):
                            k0, k = init[-1].value.value, inc.value.value
                            bound = ast.unparse(st.test.comparators[0])
                            if k0 != 0:
                                out.append((init[-1], "'%s' starts at %r while one value is appended to '%s' per count up to %s: %s values are "
                                                      "collected, not %s" % (c, k0, L, bound, '%s - %r' % (bound, k0), bound)))
                            elif k != 1:
                                out.append((inc, "'%s' advances by %r for each value appended to '%s': the loop ends after a different number of "
                                                 "values than %s (or never, with '!=')" % (c, k, L, bound)))
            for b in blocks(st):
                visit(b)
    visit(fn.body)
    return out



def guards_contradicting_their_message(fn):
    """[(if node, why)]: 'if <test>: raise E("... must be a 1D array")' / '("... inconsistent sizes")' whose test holds for exactly the inputs
    the message calls valid: ndim compared for equality with the documented dimension (or for inequality with another one), shapes compared
    for equality under an 'inconsistent' message.  The message is the author's statement of the rule; the test is its implementation."""
    import re
    out = []
    for st in ast.walk(fn):
        if not (isinstance(st, ast.If) and len(st.body) == 1 and isinstance(st.body[0], ast.Raise) and not st.orelse and st.body[0].exc is not None):
            continue
        msg = ' '.join(c.value for c in ast.walk(st.body[0].exc) if isinstance(c, ast.Constant) and isinstance(c.value, str))
        t = st.test
        neg = False
        while isinstance(t, ast.UnaryOp) and isinstance(t.op, ast.Not):
            t, neg = t.operand, not neg
        if not (isinstance(t, ast.Compare) and len(t.ops) == 1 and isinstance(t.ops[0], (ast.Eq, ast.NotEq))):
            continue
        equal = isinstance(t.ops[0], ast.Eq) != neg
        l, r = t.left, t.comparators[0]
        m = re.search(r'must be an? (\d)D array', msg)
        if m and isinstance(l, ast.Attribute) and l.attr == 'ndim' and isinstance(r, ast.Constant) and isinstance(r.value, int):
            k = int(m.group(1))
            if equal and r.value == k:
                out.append((st, "raises '%s' exactly when the array has %d dimension(s)" % (msg[:50], k)))
            elif not equal and r.value != k:
                out.append((st, "raises '%s' unless the array has %d dimensions" % (msg[:50], r.value)))
        elif 'inconsistent' in msg and equal and all(any(isinstance(x, ast.Attribute) and x.attr == 'shape' for x in ast.walk(side)) for side in (l, r)):
            out.append((st, "raises '%s' exactly when the shapes agree" % msg[:60]))
    return out



def unbound_after_handler(fn):
    """[(try node, name)]: a name first assigned inside a try body, an except handler that falls through (no raise / return / continue / break
    at its end) without assigning it, and a read of the name after the try statement: when the handled exception occurs before the
    assignment (the assignment is usually the statement that raises) the read raises UnboundLocalError."""
    out = []
    params = {a.arg for a in fn.args.posonlyargs + fn.args.args + fn.args.kwonlyargs}
    if fn.args.vararg:
        params.add(fn.args.vararg.arg)
    if fn.args.kwarg:
        params.add(fn.args.kwarg.arg)

    def stores(nodes):
        return {n.id for b in nodes for n in ast.walk(b) if isinstance(n, ast.Name) and isinstance(n.ctx, ast.Store)}

    for tr in [n for n in ast.walk(fn) if isinstance(n, ast.Try)]:
        if tr.finalbody or tr.orelse:
            continue
        inside = stores(tr.body) - params
        end = getattr(tr, 'end_lineno', None)
        if not inside or end is None:
            continue
        earlier = {n.id for n in ast.walk(fn) if isinstance(n, ast.Name) and isinstance(n.ctx, ast.Store) and n.lineno < tr.lineno}
        # inside a loop an assignment of a previous iteration also counts as earlier
        for loop in [l for l in ast.walk(fn) if isinstance(l, (ast.For, ast.While)) and any(x is tr for x in ast.walk(l))]:
            earlier |= stores([loop]) - stores([tr])
        for h in tr.handlers:
            last = h.body[-1] if h.body else None
            if isinstance(last, (ast.Raise, ast.Return, ast.Continue, ast.Break)):
                continue
            if any(isinstance(x, (ast.Raise, ast.Return, ast.Continue, ast.Break)) for x in ast.walk(h)):
                continue                      # conditional exits: not decided here
            missing = inside - stores(h.body) - earlier
            for name in sorted(missing):
                later = sorted([n for n in ast.walk(fn) if isinstance(n, ast.Name) and n.id == name and n.lineno > end],
                               key=lambda n: (n.lineno, 0 if isinstance(n.ctx, ast.Store) else 1, n.col_offset))
                if later and isinstance(later[0].ctx, ast.Load):
                    out.append((tr, name, later[0]))
    return out



def shape_index_beyond_validated_rank(fn):
    """[(subscript node, name, rank)]: after 'if X.ndim != r: raise' every X that is let through has exactly r axes; X.shape[k] with
    k >= r (or k < -r) then raises IndexError for every valid input."""
    out = []
    rank = {}
    for st in ast.walk(fn):
        if isinstance(st, ast.If) and len(st.body) == 1 and isinstance(st.body[0], ast.Raise) and not st.orelse and isinstance(st.test, ast.Compare) \
                and len(st.test.ops) == 1 and isinstance(st.test.ops[0], ast.NotEq) and isinstance(st.test.left, ast.Attribute) \
                and st.test.left.attr == 'ndim' and isinstance(st.test.comparators[0], ast.Constant) and isinstance(st.test.comparators[0].value, int):
            rank.setdefault(norm(st.test.left.value), (st.test.comparators[0].value, st.lineno))
    for n in ast.walk(fn):
        if isinstance(n, ast.Subscript) and isinstance(n.value, ast.Attribute) and n.value.attr == 'shape' and isinstance(n.slice, ast.Constant) \
                and isinstance(n.slice.value, int) and norm(n.value.value) in rank:
            r, line = rank[norm(n.value.value)]
            if n.lineno > line and (n.slice.value >= r or n.slice.value < -r):
                out.append((n, norm(n.value.value), r))
    return out



def never_filled_collections(fn):
    """[(assign node, name)]: a local created as an empty list / dict / set, never added to in any way (no method call on it, no subscript
    store, no augmented assignment, never handed to a call, never aliased or rebound) and then returned: the caller always receives the empty
    collection -- the statement that was meant to fill it is missing."""
    out = []
    empties = {}
    for st in ast.walk(fn):
        if isinstance(st, ast.Assign) and len(st.targets) == 1 and isinstance(st.targets[0], ast.Name):
            v = st.value
            if (isinstance(v, (ast.List, ast.Set)) and not v.elts) or (isinstance(v, ast.Dict) and not v.keys) or \
                    (isinstance(v, ast.Call) and not v.args and not v.keywords and dotted(v.func) in ('list', 'dict', 'set')):
                empties.setdefault(st.targets[0].id, []).append(st)
    for name, sts in empties.items():
        stores = [n for n in ast.walk(fn) if isinstance(n, ast.Name) and n.id == name and isinstance(n.ctx, (ast.Store, ast.Del))]
        if len(stores) != len(sts):
            continue                                     # rebound elsewhere
        touched = False
        returned = []
        parents = {}
        for p_ in ast.walk(fn):
            for ch in ast.iter_child_nodes(p_):
                parents[id(ch)] = p_
        for n in ast.walk(fn):
            if not (isinstance(n, ast.Name) and n.id == name and isinstance(n.ctx, ast.Load)):
                continue
            par = parents.get(id(n))
            if isinstance(par, ast.Return) and par.value is n:
                returned.append(par)
            else:
                touched = True                           # any other use (method call, subscript, argument, alias, iteration) may fill or share it
        if returned and not touched:
            out.append((sts[0], name))
    return out


def _presence_only(test):
    """the test only asks whether fields are set (`not self._x`, `self._x is None`, `not list(self._x)`): a configuration-completeness test"""
    if isinstance(test, ast.BoolOp):
        return all(_presence_only(v) for v in test.values)
    if isinstance(test, ast.UnaryOp) and isinstance(test.op, ast.Not):
        return _presence_only(test.operand)
    if isinstance(test, ast.Call) and dotted(test.func) in ('list', 'len', 'bool') and len(test.args) == 1:
        return _presence_only(test.args[0])
    if isinstance(test, ast.Compare) and len(test.ops) == 1 and isinstance(test.ops[0], (ast.Is, ast.IsNot)) \
            and isinstance(test.comparators[0], ast.Constant) and test.comparators[0].value is None:
        return _presence_only(test.left)
    return isinstance(test, ast.Attribute) and isinstance(test.value, ast.Name) and test.value.id == 'self'


def state_written_before_validation(fn, methods=None):
    """[(store stmt, field, guard stmt)]: a method other than a constructor assigns `self.<field> = <expression of parameter p>` and a LATER
    statement of the same or an enclosing block is `if <test of p or of self.<field>>: raise ...`.  When the test fails the caller gets the
    exception but the object already holds the rejected value (and none of the refresh / notification steps that follow the guard has run):
    the next operation computes with a state that no accepted call produced.  Constructors are exempt: a raising constructor leaves no object."""
    if fn.name in ('__init__', '__cinit__', '__setstate__', '__new__'):
        return []
    a = fn.args
    params = {x.arg for x in a.posonlyargs + a.args + a.kwonlyargs} - {'self', 'cls'}
    if not params:
        return []
    out = []
    methods = methods or {}

    def names(e):
        return {n.id for n in ast.walk(e) if isinstance(n, ast.Name)}

    def fields(e):
        return {n.attr for n in ast.walk(e) if isinstance(n, ast.Attribute) and isinstance(n.value, ast.Name) and n.value.id == 'self'
                and isinstance(n.ctx, ast.Load)}

    def always_raises(body):
        return bool(body) and isinstance(body[-1], ast.Raise)

    def walk_block(block, written):
        written = dict(written)
        for st in block:
            if isinstance(st, ast.If) and always_raises(st.body) and written:
                tn, tf = names(st.test) & params, fields(st.test)
                for fld, (wst, pn) in written.items():
                    if (tn & pn) or fld in tf:
                        out.append((wst, fld, st))
            if isinstance(st, ast.Expr) and isinstance(st.value, ast.Call) and written and not st.value.args and not st.value.keywords:
                # self._refresh() after the store: a helper that rejects the *computed* state (not a mere "not configured yet" test of a
                # field's presence) rejects it too late as well
                d = dotted(st.value.func)
                m = methods.get(d[5:]) if d and d.startswith('self.') else None
                if m is not None and m is not fn:
                    mf = fields(m)
                    for g in ast.walk(m):
                        if isinstance(g, ast.If) and always_raises(g.body) and not _presence_only(g.test):
                            for fld, (wst, pn) in written.items():
                                if fld in mf:
                                    out.append((wst, fld, g))
            if isinstance(st, ast.Assign):
                for t in st.targets:
                    if isinstance(t, ast.Attribute) and isinstance(t.value, ast.Name) and t.value.id == 'self':
                        pn = names(st.value) & params
                        if pn:
                            written[t.attr] = (st, pn)
            if isinstance(st, (ast.FunctionDef, ast.ClassDef)):
                continue
            if isinstance(st, ast.Try):
                # a handler may restore the old value: not decided here
                continue
            for f in ('body', 'orelse'):
                b = getattr(st, f, None)
                if isinstance(b, list) and b and isinstance(b[0], ast.stmt):
                    walk_block(b, written)
    walk_block(fn.body, {})
    seen, res = set(), []
    for wst, fld, g in out:
        if (id(wst), id(g)) not in seen:
            seen.add((id(wst), id(g)))
            res.append((wst, fld, g))
    return res


_SWV_EXAMPLE = '''
class K:
    def __init__(self, width):
        self._width = width
        if width <= 0:
            raise ValueError('constructor: exempt')

    def late(self, width):
        self._width = 2 * width
        if width <= 0:
            raise ValueError('too late')
        self._refresh()

    def early(self, width):
        if width <= 0:
            raise ValueError('in time')
        self._width = width
        self._refresh()

    def other(self, width, name):
        self._width = width
        if not name:
            raise ValueError('unrelated test')

    def through_helper(self, width):
        self._width = width
        self._rebuild()

    def through_presence_helper(self, width):
        self._width = width
        self._configure()

    def _rebuild(self):
        if self._width * self._scale > 10:
            raise ValueError('computed state rejected')

    def _configure(self):
        if not self._width:
            raise ValueError('not configured yet')

    def refill(self, items):
        self._items = {}
        for item in items:
            if not isinstance(item, str):
                raise TypeError('rejected after the reset')
            self._items[item] = 1

    def refill_checked(self, items):
        items = tuple(items)
        for item in items:
            if not isinstance(item, str):
                raise TypeError('rejected in time')
        self._items = {}
        for item in items:
            self._items[item] = 1
'''


def selfcheck_generic():
    """rules with no instance on a clean tree are exercised on a built-in example on every run"""
    tree = ast.parse(_SWV_EXAMPLE)
    meths = {f.name: f for f in tree.body[0].body}
    got = [f.name for f in tree.body[0].body if state_written_before_validation(f, meths)]
    got2 = [f.name for f in tree.body[0].body if state_rebuilt_while_validating(f)]
    if got != ['late', 'through_helper'] or got2 != ['refill']:
        from ..report import AnalysisError
        raise AnalysisError('stored-before-validated rule self-check failed: %s %s' % (got, got2))


def derived_from_aliased_input(fn):
    """[(store stmt, local, param, derived stmt)]: a method keeps an array that may be the caller's own object (the parameter, an element of
    it, a view, or an as-array conversion that does not copy) in the instance AND computes another kept value from it in the same call.
    The kept array then changes when the caller later writes into its buffer while the value derived from it does not: the object's state is
    no longer the state any assignment produced.  (Keeping a caller's array alone is not reported: nothing derived goes stale.)"""
    a = fn.args
    params = {x.arg for x in a.posonlyargs + a.args + a.kwonlyargs} - {'self', 'cls'}
    if not params:
        return []
    elem_of = {}
    for n in ast.walk(fn):
        if isinstance(n, ast.For) and isinstance(n.target, ast.Name) and isinstance(n.iter, ast.Name) and n.iter.id in params:
            elem_of[n.target.id] = n.iter.id

    def origin(v, depth=0):
        if depth > 4:
            return None
        if isinstance(v, ast.Name) and v.id in params:
            return v.id
        if isinstance(v, ast.Call):
            f = dotted(v.func) or ''
            last = v.func.attr if isinstance(v.func, ast.Attribute) else f.rsplit('.', 1)[-1]
            kw = {k.arg: k.value for k in v.keywords}
            if last in _NO_COPY and v.args:
                return origin(v.args[0], depth + 1)
            if last == 'array' and v.args and isinstance(kw.get('copy'), ast.Constant) and kw['copy'].value in (False, None):
                return origin(v.args[0], depth + 1)
            if isinstance(v.func, ast.Attribute) and last in ('view', 'reshape', 'ravel', 'squeeze', 'transpose'):
                return origin(v.func.value, depth + 1)
            return None
        if isinstance(v, ast.Attribute) and v.attr in ('T', 'base'):
            return origin(v.value, depth + 1)
        if isinstance(v, ast.Name) and v.id in elem_of:
            return elem_of[v.id]
        return None

    # locals bound (last binding before use is not tracked: any aliasing binding counts, a copying rebinding clears it)
    alias = {}
    order = []
    for st in ast.walk(fn):
        if isinstance(st, ast.Assign) and len(st.targets) == 1 and isinstance(st.targets[0], ast.Name):
            order.append(st)
    for st in sorted(order, key=lambda s: (s.lineno, s.col_offset)):
        t = st.targets[0].id
        # `x = asarray(x)` where x is a loop element: origin of the right-hand side evaluated with x still meaning the element
        o = origin(st.value)
        if o:
            alias[t] = (o, st)
        elif t in alias or t in elem_of:
            alias.pop(t, None)
            elem_of.pop(t, None)
    for t, p in list(elem_of.items()):
        alias.setdefault(t, (p, None))
    if not alias:
        return []
    kept_lists = set()
    for st in ast.walk(fn):
        if isinstance(st, ast.Assign):
            for tg in st.targets:
                if isinstance(tg, ast.Attribute) and isinstance(tg.value, ast.Name) and tg.value.id == 'self':
                    for n in ast.walk(st.value):
                        if isinstance(n, ast.Name):
                            kept_lists.add(n.id)
    out = []

    def kept(name):
        """statement through which the local is kept in the instance: self.F = name / L.append(name) with L stored in a field"""
        for st in ast.walk(fn):
            if isinstance(st, ast.Assign) and isinstance(st.value, ast.Name) and st.value.id == name:
                for tg in st.targets:
                    if isinstance(tg, ast.Attribute) and isinstance(tg.value, ast.Name) and tg.value.id == 'self':
                        return st
            if isinstance(st, ast.Expr) and isinstance(st.value, ast.Call) and isinstance(st.value.func, ast.Attribute) \
                    and st.value.func.attr == 'append' and isinstance(st.value.func.value, ast.Name) and st.value.func.value.id in kept_lists \
                    and len(st.value.args) == 1 and isinstance(st.value.args[0], ast.Name) and st.value.args[0].id == name:
                return st
        return None

    for name, (p, bind) in alias.items():
        k = kept(name)
        if k is None:
            continue
        # a value computed from the aliased array (arithmetic on it) that is kept as well
        for st in ast.walk(fn):
            if not (isinstance(st, ast.Assign) and len(st.targets) == 1):
                continue
            if not any(isinstance(b, ast.BinOp) and any(isinstance(x, ast.Name) and x.id == name for x in ast.walk(b)) for b in ast.walk(st.value)):
                continue
            tg = st.targets[0]
            if isinstance(tg, ast.Attribute) and isinstance(tg.value, ast.Name) and tg.value.id == 'self':
                out.append((k, name, p, st))
            elif isinstance(tg, ast.Name) and tg.id != name and kept(tg.id) is not None:
                out.append((k, name, p, st))
    return out


def state_rebuilt_while_validating(fn):
    """[(store stmt, field, guard stmt)]: a method other than a constructor validates the elements of an argument inside the same loop that
    already refills the object's state from them (or after a statement that has already reset that state): when the k-th element is rejected
    the caller gets the exception, but the object has lost its old content and holds the first k-1 new entries -- and the notification that
    follows the loop never runs, so nothing that depends on the object learns of the change."""
    if fn.name in ('__init__', '__cinit__', '__setstate__', '__new__'):
        return []
    a = fn.args
    params = {x.arg for x in a.posonlyargs + a.args + a.kwonlyargs} - {'self', 'cls'}
    if not params:
        return []
    # locals that are the argument under another name (tuple(x), list(x))
    same = set(params)
    for st in ast.walk(fn):
        if isinstance(st, ast.Assign) and len(st.targets) == 1 and isinstance(st.targets[0], ast.Name):
            v = st.value
            if isinstance(v, ast.Call) and dotted(v.func) in ('tuple', 'list', 'iter', 'sorted') and len(v.args) == 1 and isinstance(v.args[0], ast.Name) and v.args[0].id in same:
                same.add(st.targets[0].id)
    out = []

    def self_store(st):
        tg = st.targets[0] if isinstance(st, ast.Assign) else (st.target if isinstance(st, ast.AugAssign) else None)
        while isinstance(tg, ast.Subscript):
            tg = tg.value
        if isinstance(tg, ast.Attribute) and isinstance(tg.value, ast.Name) and tg.value.id == 'self':
            return tg.attr
        return None

    body = fn.body
    for i, st in enumerate(body):
        if not (isinstance(st, ast.For) and isinstance(st.iter, ast.Name) and st.iter.id in same):
            continue
        lvars = {x.id for x in ast.walk(st.target) if isinstance(x, ast.Name)}
        guards = [g for g in ast.walk(st) if isinstance(g, ast.If) and g.body and isinstance(g.body[-1], ast.Raise)
                  and {x.id for x in ast.walk(g.test) if isinstance(x, ast.Name)} & lvars]
        if not guards:
            continue
        before = [(b, self_store(b)) for b in body[:i] if isinstance(b, (ast.Assign, ast.AugAssign)) and self_store(b)]
        inside = [(b, self_store(b)) for b in ast.walk(st) if isinstance(b, (ast.Assign, ast.AugAssign)) and self_store(b)]
        for b, fld in (before + inside)[:1]:
            out.append((b, fld, guards[0]))
    return out
