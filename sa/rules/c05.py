"""C05 -- beam CX emission is a population-weighted mean, beam emission a charged sum (DESIGN section 5, C05)."""
import ast
from fractions import Fraction

from ..program import Program, dotted, norm
from ..report import AnalysisError
from ..flow import guards_of, facts, stores
from ..algebra import C, L, Rat, run_block
from ..exprcmp import EmEval, expr, body_env

FILES = ['cherab/core/model/beam/charge_exchange.pyx', 'cherab/core/model/beam/beam_emission.pyx', 'cherab/core/plasma/node.pyx']


def _r6_frames(run, prog):
    """R6: BeamMaterial hands every beam model the sample point in beam space and, in *plasma* space, the point, the local beam direction and
    the observation direction -- all three taken there with the one beam-to-plasma transform (the models compute the interaction
    velocity from the beam direction and the plasma's ion velocity, which is a plasma-space vector)."""
    run.describe('C05-R6', 'BeamMaterial.emission_function: plasma point, beam direction and observation direction are transformed with beam.to(plasma) before model.emission')
    rel = 'cherab/core/beam/material.pyx'
    mi = prog.load(rel, required=False)
    if mi is None:
        raise AnalysisError('anchored source file vanished: %s' % rel)
    prog.link()
    run.use_file(rel)
    ci = prog.classes.get(mi.name + '.BeamMaterial')
    fn = ci.methods.get('emission_function') if ci is not None else None
    if fn is None:
        raise AnalysisError('anchored method vanished: BeamMaterial.emission_function')
    import copy as _copy
    g = fn
    names = [a.arg for a in g.args.args]
    point, direction = names[1], names[2]
    # straight-line substitution of the locals, in statement order (a local may be rebound: direction = f(direction))
    env = {}

    class _S(ast.NodeTransformer):
        def visit_Name(self, n):
            return _copy.deepcopy(env[n.id]) if n.id in env and isinstance(n.ctx, ast.Load) else n
    calls = []
    for st in g.body:
        if isinstance(st, ast.Assign) and len(st.targets) == 1 and isinstance(st.targets[0], ast.Name):
            env[st.targets[0].id] = _S().visit(_copy.deepcopy(st.value))
        elif isinstance(st, (ast.For, ast.Expr, ast.Return, ast.If, ast.While)):
            st2 = _S().visit(_copy.deepcopy(st))
            calls += [c for c in ast.walk(st2) if isinstance(c, ast.Call) and isinstance(c.func, ast.Attribute) and c.func.attr == 'emission' and len(c.args) >= 5]
    K = mi.name + '|BeamMaterial|emission_function|'
    run.subject('C05-R6')
    if len(calls) != 1:
        run.undecided('C05-R6', 'BeamMaterial.emission_function', '%d calls of model.emission' % len(calls))
        return
    a = [norm(x).replace(' ', '') for x in calls[0].args[:4]]
    T = 'self._beam.to(self._plasma)'
    want = [point, '%s.transform(%s)' % (point, T), 'self._beam.direction(%s.x,%s.y,%s.z).transform(%s)' % (point, point, point, T),
            '%s.transform(%s)' % (direction, T)]
    what = ['the sample point (beam space)', 'the sample point in plasma space', 'the beam direction in plasma space', 'the observation direction in plasma space']
    bad = [k for k in range(4) if a[k] != want[k].replace(' ', '')]
    if not bad:
        run.ok('C05-R6', 'BeamMaterial.emission_function', 'point, point / beam direction / observation direction transformed with beam.to(plasma)')
    else:
        k = bad[0]
        known = a[k] in (point, direction, 'self._beam.direction(%s.x,%s.y,%s.z)' % (point, point, point)) or '.transform(' in a[k]
        if known:
            run.fail('C05-R6', K + 'frames:%d' % k, rel, calls[0].lineno,
                     'BeamMaterial passes %s as %s to the beam models; documented: %s -- for a beam rotated with respect to the plasma the '
                     'interaction energy with moving ions, and with it every CX / beam-emission coefficient, is evaluated for the wrong velocity'
                     % (a[k][:70], what[k], want[k]))
        else:
            run.undecided('C05-R6', 'BeamMaterial.emission_function', 'argument %d is %s' % (k, a[k][:50]))


def check(run):
    prog = Program()
    prog.load_many(FILES)
    _PROG[0] = prog
    for f in FILES:
        run.use_file(f)
    run.explanation = (
        'Decides structural necessary conditions of C05: (R1) radiance = (1/4pi) n_beam n_rec q with q = (q_1 + sum_i k_i q_i) / '
        '(1 + sum_i k_i), the same k_i in numerator and denominator (formal sums over the same loop) -- the weighted-mean form that '
        'implies min q <= q <= max q for k >= 0; beam population = sum (Z n) c / sum (Z n); beam emission = (1/4pi) n_beam sum_i '
        'Z_i n_i q_i(E_int,i, sum_j Z_j^2 n_j / Z_i, T_i); (R2) every BeamCXPEC.evaluate call, ground and excited, receives '
        '(interaction energy, receiver temperature, plasma.ion_density, plasma.z_effective, |B|) in that order by provenance, the '
        'interaction energy deriving from the beam direction, beam energy and receiver bulk velocity; (R3) zero beam density or '
        'zero receiver density/temperature returns the untouched spectrum before any rate is evaluated; (R4) Plasma.z_effective = '
        'sum n Z^2 / sum n Z over charge > 0 and ion_density = sum n. Does not decide numeric totals or provider behaviour for '
        'neutrals.')
    run.assumptions = ['rate objects are pure functions of their arguments', 'relative populations are non-negative']
    classes = {c.name: c for c in prog.classes.values() if not (c.name == 'ModelManager')}
    for n in ('BeamCXLine', 'BeamEmissionLine', 'Plasma'):
        if n not in classes:
            raise AnalysisError('anchored class vanished: %s' % n)
    cx, be, pl = classes['BeamCXLine'], classes['BeamEmissionLine'], classes['Plasma']
    _cx(run, cx)
    _be(run, be)
    _plasma(run, pl)
    _r6_frames(run, prog)
    run.include('C01', set(FILES) | {'cherab/core/plasma/node.pyx', 'cherab/core/plasma/model.pyx', 'cherab/core/utility/notify.py', 'cherab/core/beam/model.pyx', 'cherab/core/beam/node.pyx'}, 'the cached receiver species, rates and populations must follow changes of the plasma composition')
    from ..cachekey import check_caches
    check_caches(run, [m_ for m_ in prog.modules.values() if m_.relpath in set(FILES) and not m_.name.endswith('#pxd')], 'C05-K', prog=prog)


_PROG = [None]


def _m(ci, name):
    fn = ci.methods.get(name)
    if fn is None:
        raise AnalysisError('anchored method vanished: %s.%s' % (ci.name, name))
    # module-level private helpers (shared sub-computations hoisted out of the methods) are read where they are called; the methods
    # themselves are the anchors of the rules and stay calls
    from ..inline import flatten, module_lookup
    try:
        return flatten(fn, module_lookup(ci.mod, prog=_PROG[0]))
    except Exception:
        return fn


def _paths(fn, sinks=()):
    from ..pathinterp import PathInterp
    return PathInterp(fn, sinks, {}, evaluator=EmEval, max_paths=128).run()


def _zero_test(dec, quantity_keys):
    """True if the path assumed '<quantity> == 0' (or <= 0), False if it assumed the opposite, None if never tested."""
    for k, bval in dec.items():
        m = k.replace(' ', '')
        for q in quantity_keys:
            for suf, pos in (('==0.0', True), ('==0', True), ('<=0.0', True), ('<=0', True), ('!=0.0', False), ('!=0', False), ('>0.0', False), ('>0', False)):
                if m == q + suf:
                    return bval if pos else (not bval)
    return None


def _emission(run, ci, kind):
    """emission(): on every path either the spectrum is returned untouched (and the tested density is zero) or the line shape
    receives the documented radiance; a rate is never evaluated on a zero-density path."""
    K = '%s|%s|' % (ci.mod.name, ci.name)
    fn = _m(ci, 'emission')
    bp, pp, bd, od, sp = [a.arg for a in fn.args.args[1:6]]
    rate_name = 'self._composite_cx_rate' if kind == 'cx' else 'self._beam_emission_rate'
    try:
        paths = _paths(fn, ('self._lineshape.add_line',))
    except Exception as e:
        run.subject('C05-R1')
        run.undecided('C05-R1', ci.name + '.emission', 'cannot interpret: %s' % e)
        return None
    e0, rec = body_env(fn)
    nb = expr('self._beam.density(%s.x, %s.y, %s.z)' % (bp, bp, bp))
    XYZ = '(%s.x, %s.y, %s.z)' % (pp, pp, pp)
    nr = expr('self._target_species.distribution.density' + XYZ)
    # names of the locals holding the two densities (whatever they are called): the tests are on them
    dens_keys = {'beam': set(), 'receiver': set()}
    for t, v, st in stores(fn):
        if isinstance(t, ast.Name):
            try:
                val = e0.ev(v)
            except Exception:
                continue
            if val.eq(nb):
                dens_keys['beam'].add(t.id)
            if kind == 'cx' and val.eq(nr):
                dens_keys['receiver'].add(t.id)
    dens_keys['beam'].add(nb.key().replace(' ', ''))
    dens_keys['receiver'].add(nr.key().replace(' ', ''))
    emitted = 0
    zero_seen = {'beam': False, 'receiver': False}
    bad = []
    rate_leaf_texts = set()
    for p in paths:
        dec = dict(p.decisions)
        if p.returned is not None and p.returned.key() == 'raise':
            continue
        zb = _zero_test(dec, dens_keys['beam'])
        zr = _zero_test(dec, dens_keys['receiver']) if kind == 'cx' else None
        rate_leaves = [l for s_ in p.sinks for a_ in s_[1] for l in a_.leaves() if l.startswith(rate_name + '(')]
        if zb or zr:
            which = 'beam' if zb else 'receiver'
            zero_seen[which] = True
            if p.sinks or (p.returned is not None and p.returned.key() != sp):
                bad.append(('R3', which, dec))
            continue
        if not p.sinks:
            # spectrum untouched although no density was found to be zero: allowed only for the other documented zero tests
            continue
        emitted += 1
        rad = p.sinks[0][1][0]
        rl = [l for l in rad.leaves() if l.startswith(rate_name + '(')]
        if len(rl) != 1:
            bad.append(('R1', 'radiance %s' % rad.key()[:160], dec))
            continue
        rate_leaf_texts.add(rl[0])
        want = L('RECIP_4_PI') * nb * (nr if kind == 'cx' else C(1)) * L(rl[0])
        if not rad.eq(want):
            bad.append(('R1', 'radiance %s' % rad.key()[:200], dec))
    run.subject('C05-R1')
    r1 = [b_ for b_ in bad if b_[0] == 'R1']
    if r1:
        run.fail('C05-R1', K + 'emission|radiance', ci.mod.relpath, fn.lineno,
                 '%s %s on the path %s; documented: (1/4pi) n_beam %s* rate' % (ci.name, r1[0][1], r1[0][2], 'n_receiver ' if kind == 'cx' else ''))
    elif emitted:
        run.ok('C05-R1', ('CX' if kind == 'cx' else 'beam emission') + ' radiance', 'RECIP_4_PI * n_beam * %srate on %d emitting path(s)' % ('n_rec * ' if kind == 'cx' else '', emitted))
    else:
        run.fail('C05-R1', K + 'emission|radiance', ci.mod.relpath, fn.lineno, '%s.emission never hands a radiance to the line shape' % ci.name)
    for which in (('beam', 'receiver') if kind == 'cx' else ('beam',)):
        run.subject('C05-R3')
        r3 = [b_ for b_ in bad if b_[0] == 'R3' and b_[1] == which]
        if r3:
            run.fail('C05-R3', K + 'emission|guard:%s' % which, ci.mod.relpath, fn.lineno,
                     '%s.emission adds a line although the %s density is zero on the path %s' % (ci.name, which, r3[0][2]))
        elif zero_seen[which]:
            run.ok('C05-R3', '%s %s density' % (ci.name, which), 'zero -> the untouched spectrum is returned, no line added')
        else:
            run.fail('C05-R3', K + 'emission|guard:%s' % which, ci.mod.relpath, fn.lineno,
                     '%s.emission does not test the %s density for zero before evaluating the rates: the result is not exactly the untouched spectrum' % (ci.name, which))
    # the zero tests come before the rate is evaluated
    run.subject('C05-R3')
    rc = [c for c in ast.walk(fn) if isinstance(c, ast.Call) and norm(c.func) == rate_name]
    early = True
    for c in rc:
        f = facts(guards_of(fn, c) or [])
        for which in (('beam', 'receiver') if kind == 'cx' else ('beam',)):
            if not any((a[0].replace(' ', '') in dens_keys[which] and a[1] in ('!=', '>') and a[2] in ('0', '0.0')) for a in f):
                early = False
    if rc and early:
        run.ok('C05-R3', ci.name + ' rates after the zero tests', 'the composite rate is only evaluated where the densities are non-zero', sample=False)
    elif rc:
        run.fail('C05-R3', K + 'emission|guard-order', ci.mod.relpath, rc[0].lineno, '%s.emission evaluates %s before the zero-density tests' % (ci.name, rate_name))
    return e0, rc, sorted(rate_leaf_texts)


def _split_args(leaf):
    """top-level arguments of 'name(a, b(c, d), e)'"""
    inner = leaf[leaf.index('(') + 1:-1]
    out, depth, cur = [], 0, ''
    for ch in inner:
        if ch in '([':
            depth += 1
        elif ch in ')]':
            depth -= 1
        if ch == ',' and depth == 0:
            out.append(cur.strip())
            cur = ''
        else:
            cur += ch
    if cur.strip():
        out.append(cur.strip())
    return out


def _cx(run, ci):
    run.describe('C05-R1', 'radiance and weighted-mean forms')
    run.describe('C05-R2', 'BeamCXPEC.evaluate(E_int, T_rec, ion_density, z_effective, |B|) by provenance')
    run.describe('C05-R3', 'zero beam / receiver density returns the untouched spectrum before any rate evaluation')
    K = ci.mod.name + '|BeamCXLine|'
    fn = _m(ci, 'emission')
    bp, pp, bd, od, sp = [a.arg for a in fn.args.args[1:6]]
    XYZ = '(%s.x, %s.y, %s.z)' % (pp, pp, pp)
    r = _emission(run, ci, 'cx')
    if r is None:
        return
    e, rate_calls, leaves = r
    # arguments of _composite_cx_rate: (x, y, z, E_int, donor_velocity, T_rec), as evaluated on the emitting paths
    run.subject('C05-R2')
    ok = bool(leaves)
    detail = None
    for lf in leaves:
        a = _split_args(lf)
        if len(a) != 6:
            ok = False
            continue
        eint, dv, tr = a[3], a[4], a[5]
        detail = (eint[:120], tr[:80])
        ok = ok and eint.startswith('ms_to_evamu(') and 'self._beam.get_energy()' in eint and bd + '.normalise()' in eint and 'bulk_velocity' in eint \
            and '.sub(' in eint and 'get_length()' in eint and tr == expr('self._target_species.distribution.effective_temperature' + XYZ).key() \
            and a[:3] == [pp + '.x', pp + '.y', pp + '.z'] and 'evamu_to_ms(self._beam.get_energy())' in dv
    if ok:
        run.ok('C05-R2', 'interaction energy provenance', 'ms_to_evamu(|direction.normalise() * v(E_beam) - v_receiver|), T of the receiver species')
    else:
        run.fail('C05-R2', K + 'emission|interaction-energy', ci.mod.relpath, fn.lineno,
                 'the composite rate is evaluated with (E_int, T) = %s; documented: interaction energy from beam direction, beam energy and '
                 'receiver bulk velocity, receiver temperature' % (detail,))
    # composite rate: value returned by one symbolic pass over the excited states
    fn = _m(ci, '_composite_cx_rate')
    x, y, z, ei, dv, tr = [a.arg for a in fn.args.args[1:7]]
    run.subject('C05-R2')
    try:
        paths = _paths(fn)
    except Exception as ex:
        run.undecided('C05-R2', '_composite_cx_rate', 'cannot interpret: %s' % ex)
        return
    want_args = [L(ei), L(tr), expr('self._plasma.ion_density(%s, %s, %s)' % (x, y, z)), expr('self._plasma.z_effective(%s, %s, %s)' % (x, y, z)),
                 expr('self._plasma.get_b_field().evaluate(%s, %s, %s).get_length()' % (x, y, z))]
    wa = ', '.join(w.key() for w in want_args)
    loops = [l for l in fn.body if isinstance(l, ast.For)]
    if len(paths) != 1 or len(loops) != 1 or norm(loops[0].iter) not in ('self._excited_beam_data',):
        run.undecided('C05-R2', '_composite_cx_rate', 'expected one loop over the excited-state data and one path')
        return
    val = paths[0].returned
    leaves = sorted(val.leaves()) if val is not None else []
    q1 = [l for l in leaves if l.startswith('self._ground_beam_rate.evaluate(')]
    kk = [l for l in leaves if l.startswith('self._beam_population(')]
    qi = [l for l in leaves if '.evaluate(' in l and l not in q1 and not l.startswith('self._plasma')]
    bad_args = [l for l in q1 + qi if not l.endswith('.evaluate(%s)' % wa)]
    if not q1 or not qi:
        run.undecided('C05-R2', '_composite_cx_rate', 'ground / excited coefficients not recognised in %s' % (val.key()[:120] if val is not None else None))
    elif bad_args:
        run.fail('C05-R2', K + '_composite_cx_rate|arguments:' + bad_args[0].split('.evaluate(')[0], ci.mod.relpath, fn.lineno,
                 '%s; documented order: (interaction energy, receiver temperature, total ion density, Z-effective, |B|)' % bad_args[0][:200])
    else:
        run.ok('C05-R2', 'effective coefficient arguments', '(E_int, T_rec, ion_density, z_effective, |B|) for ground and excited states')
    run.subject('C05-R1')
    if val is None or len(q1) != 1 or len(qi) != 1 or len(kk) != 1:
        run.undecided('C05-R1', 'population-weighted mean', 'returned value not recognised: %s' % (val.key()[:160] if val is not None else None))
    else:
        Q1, QI, Kp = L(q1[0]), L(qi[0]), L(kk[0])
        if val.eq((Q1 + Kp * QI) / (C(1) + Kp)):
            run.ok('C05-R1', 'population-weighted mean', 'q = (q_1 + sum k_i q_i) / (1 + sum k_i), same k_i in both sums')
        else:
            run.fail('C05-R1', K + '_composite_cx_rate|weighted-mean', ci.mod.relpath, fn.lineno,
                     'the composite coefficient is %s per excited state; documented: (q_1 + sum_i k_i q_i) / (1 + sum_i k_i) with the same '
                     'populations in both sums' % val.key()[:300].replace(q1[0], 'q1').replace(qi[0], 'qi').replace(kk[0], 'k'))
    # beam population
    fn = _m(ci, '_beam_population')
    from ._charged import charged_sum
    charged_sum(run, 'C05-R1', ci, fn, True, 'ms_to_evamu')
    _fresh_per_iteration(run, ci, _m(ci, '_populate_cache'))
    _ground_state_selected(run, ci, _m(ci, '_populate_cache'))


def _ground_state_selected(run, ci, fn):
    """The weight-one coefficient q_1 is the rate of the ground donor state: selected by donor_metastable == 1, not by its position in the
    list the provider returns (providers may list the states in any order)."""
    run.describe('C05-R7', 'the ground-state coefficient (weight 1) is the rate whose donor_metastable is 1; the others get population weights')
    K = '%s|%s|_populate_cache|ground' % (ci.mod.name, ci.name)
    sts = [st for st in ast.walk(fn) if isinstance(st, ast.Assign) and any(norm(t) == 'self._ground_beam_rate' for t in st.targets)]
    run.subject('C05-R7')
    if not sts:
        run.undecided('C05-R7', 'BeamCXLine._populate_cache', 'no assignment of the ground-state rate')
        return
    for st in sts:
        v = st.value
        f = facts(guards_of(fn, st) or [])
        if isinstance(v, ast.Name) and ((v.id + '.donor_metastable', '==', '1') in f):
            run.ok('C05-R7', 'ground state', '%s.donor_metastable == 1' % v.id)
        elif isinstance(v, ast.Subscript) and isinstance(v.slice, ast.Constant):
            run.fail('C05-R7', K, ci.mod.relpath, st.lineno,
                     'the ground-state coefficient is taken as %s, by position: when the provider lists an excited donor state first, that state '
                     'gets weight 1 and the ground state a population weight, so q is not the population-weighted mean' % norm(v))
        elif isinstance(v, ast.Name) and not any(a[0].endswith('.donor_metastable') for a in f):
            run.fail('C05-R7', K, ci.mod.relpath, st.lineno,
                     'the ground-state coefficient is assigned (%s) without testing donor_metastable == 1' % norm(st)[:60])
        else:
            run.undecided('C05-R7', 'ground state', 'selection %s under %s' % (norm(v)[:30], sorted(f)[:2]))


def _fresh_per_iteration(run, ci, fn):
    from ._fresh import fresh_per_iteration
    run.describe('C05-R5', 'per-state population lists are created afresh for every excited state (no list shared between iterations)')
    n = fresh_per_iteration(run, 'C05-R5', ci.name, ci.mod, fn, describe=False)
    if n == 0:
        run.subject('C05-R5')
        run.undecided('C05-R5', '%s.%s' % (ci.name, fn.name), 'no per-iteration list recognised')

def _charged_sum(run, ci, fn, data, cf_hint, mean):
    """sum_i (Z_i n_i) c_i(E_int,i, sum_j Z_j^2 n_j / Z_i, T_i) [ / sum_i Z_i n_i ]"""
    K = '%s|%s|%s|' % (ci.mod.name, ci.name, fn.name)
    x, y, z, bv = [a.arg for a in fn.args.args[1:5]]
    XYZ = '(%s, %s, %s)' % (x, y, z)
    loops = [l for l in fn.body if isinstance(l, ast.For)]
    run.subject('C05-R1')
    if len(loops) != 2:
        run.undecided('C05-R1', '%s.%s' % (ci.name, fn.name), 'expected two loops')
        return
    e1 = EmEval({'density_sum': L('DS0')})
    run_block(e1, loops[0].body)
    sp = loops[0].target.elts[0].id
    want = L('DS0') + expr('%s.charge ** 2 * %s.distribution.density%s' % (sp, sp, XYZ))
    ok1 = e1.env.get('density_sum') is not None and e1.env['density_sum'].eq(want)
    acc = [st.target.id for st in loops[1].body if isinstance(st, ast.AugAssign) and isinstance(st.target, ast.Name)]
    env0 = {'density_sum': L('DS')}
    for a in acc:
        env0[a] = L('ACC_' + a)
    e2 = EmEval(env0)
    run_block(e2, loops[1].body)
    sp2, cf = [t.id for t in loops[1].target.elts]
    N = expr('%s.distribution.density%s' % (sp2, XYZ))
    T = expr('%s.distribution.effective_temperature%s' % (sp2, XYZ))
    call = [c for c in ast.walk(loops[1]) if isinstance(c, ast.Call) and norm(c.func) == cf + '.evaluate']
    ok2 = False
    detail = None
    if call and len(call[0].args) == 3 and acc:
        a = [e2.ev(v) for v in call[0].args]
        term = e2.env[acc[0]] - L('ACC_' + acc[0])
        detail = term.key()[:200]
        ok2 = a[1].eq(L('DS') / L(sp2 + '.charge')) and a[2].eq(T) and a[0].key().startswith('ms_to_evamu(') and 'bulk_velocity' in a[0].key() and bv in a[0].key() \
            and term.eq(N * L(sp2 + '.charge') * L('%s.evaluate(%s)' % (cf, ', '.join(v.key() for v in a))))
        if mean:
            ok2 = ok2 and len(acc) == 2 and (e2.env[acc[1]] - L('ACC_' + acc[1])).eq(N * L(sp2 + '.charge'))
            ret = [r for r in ast.walk(fn) if isinstance(r, ast.Return)]
            ok2 = ok2 and ret and norm(ret[-1].value) == '%s / %s' % (acc[0], acc[1])
        else:
            ret = [r for r in ast.walk(fn) if isinstance(r, ast.Return)]
            ok2 = ok2 and ret and norm(ret[-1].value) == acc[0]
    if ok1 and ok2 and all(norm(l.iter) == norm(loops[0].iter) for l in loops):
        run.ok('C05-R1', '%s.%s' % (ci.name, fn.name), 'sum (Z n) c(E_int, sum Z^2 n / Z, T)%s' % (' / sum (Z n)' if mean else ''))
    else:
        run.fail('C05-R1', K + 'charged-sum', ci.mod.relpath, fn.lineno,
                 '%s.%s: term is %s (sum Z^2 n ok: %s); documented: sum_i (Z_i n_i) c_i(E_int,i, sum_j Z_j^2 n_j / Z_i, T_i)%s'
                 % (ci.name, fn.name, detail, ok1, ' / sum_i Z_i n_i' if mean else ''))


def _be(run, ci):
    K = ci.mod.name + '|BeamEmissionLine|'
    fn = _m(ci, 'emission')
    bp, pp, bd, od, sp = [a.arg for a in fn.args.args[1:6]]
    r = _emission(run, ci, 'be')
    if r is not None:
        e, rc, leaves = r
        run.subject('C05-R1')
        if leaves:
            bad = None
            for lf in leaves:
                a = _split_args(lf)
                if not (len(a) == 4 and a[:3] == [pp + '.x', pp + '.y', pp + '.z'] and 'evamu_to_ms(self._beam.get_energy())' in a[3] and bd + '.normalise()' in a[3]):
                    bad = a
            if bad is None:
                run.ok('C05-R1', 'beam emission rate arguments', 'rate(plasma point, beam velocity)')
            else:
                run.fail('C05-R1', K + 'emission|radiance', ci.mod.relpath, fn.lineno,
                         'beam emission rate is evaluated with the arguments %s; documented: the plasma-space point and the beam velocity' % bad)
        else:
            run.undecided('C05-R1', 'beam emission rate arguments', 'no call of _beam_emission_rate on an emitting path')
    from ._charged import charged_sum
    charged_sum(run, 'C05-R1', ci, _m(ci, '_beam_emission_rate'), False, 'ms_to_evamu')


def _plasma(run, ci):
    run.describe('C05-R4', 'Plasma.z_effective = sum n Z^2 / sum n Z over charge > 0; ion_density = sum n')
    K = ci.mod.name + '|Plasma|'
    from ..inline import propagate
    for name in ('z_effective', 'ion_density'):
        fn0 = _m(ci, name)
        fn = propagate(fn0)
        x, y, z = [a.arg for a in fn.args.args[1:4]]
        run.subject('C05-R4')
        loops = [l for l in fn.body if isinstance(l, ast.For)]
        if len(loops) != 1 or norm(loops[0].iter) not in ('self._composition', 'self.composition') or not isinstance(loops[0].target, ast.Name):
            run.undecided('C05-R4', name, 'loop over the composition not recognised')
            continue
        sp = loops[0].target.id
        try:
            paths = _paths(fn)
        except Exception as ex:
            run.undecided('C05-R4', name, 'cannot interpret: %s' % ex)
            continue
        N = expr('%s.distribution.density(%s, %s, %s)' % (sp, x, y, z))
        Z = L(sp + '.charge')
        verdict = []
        for p_ in paths:
            dec = dict(p_.decisions)
            if p_.returned is not None and p_.returned.key() == 'raise':
                continue
            # is the species counted on this path?  (charge > 0 / charge < 1 / charge <= 0 tests, for integer charges)
            ion = None
            for k, bv in dec.items():
                m = k.replace(' ', '')
                for suf, pos in (('.charge>0', True), ('.charge>=1', True), ('.charge<1', False), ('.charge<=0', False), ('.charge==0', False), ('.charge!=0', True)):
                    if m.endswith(suf):
                        ion = bv if pos else (not bv)
            other = {k: v for k, v in dec.items() if '.charge' not in k and (sp + '.') in k}
            verdict.append((ion, other, p_.returned, dec))
        if name == 'z_effective':
            ok = None
            why = None
            for ion, other, val, dec in verdict:
                if val is None:
                    continue
                if ion is True and not other:
                    # single symbolic pass over an ion: (0 + n Z^2) / (0 + n Z)
                    if val.eq((N * Z * Z) / (N * Z)):
                        ok = True if ok is None else ok
                    else:
                        ok, why = False, 'an ion contributes %s' % val.key()[:120]
                if ion is None and not other:
                    ok, why = False, 'species are not filtered by charge > 0 (path %s)' % dec
            # neutrals must not contribute: on the path where the species is not an ion nothing is accumulated
            neutral = [v for v in verdict if v[0] is False]
            for ion, other, val, dec in neutral:
                if val is not None and any(N.key() in l or l == N.key() for l in val.leaves()):
                    ok, why = False, 'a neutral contributes %s' % val.key()[:120]
            if ok:
                run.ok('C05-R4', 'z_effective', 'sum n Z^2 / sum n Z over charge > 0')
            elif ok is False:
                run.fail('C05-R4', K + 'z_effective|form', ci.mod.relpath, fn0.lineno, 'z_effective: %s; documented: sum n Z^2 / sum n Z over ions' % why)
            else:
                run.undecided('C05-R4', 'z_effective', 'accumulation not recognised: %s' % [(v[3], v[2].key()[:60] if v[2] is not None else None) for v in verdict][:3])
        else:
            vals = [v for v in verdict if v[2] is not None]
            if len(vals) == 1 and not vals[0][3] and vals[0][2].eq(N):
                run.ok('C05-R4', 'ion_density', 'sum over all species of n')
            elif vals and any(v[3] for v in vals):
                run.fail('C05-R4', K + 'ion_density|form', ci.mod.relpath, fn0.lineno,
                         'ion_density counts a species only under the condition %s: it is not the plain sum of the species densities' % vals[0][3])
            elif vals:
                run.fail('C05-R4', K + 'ion_density|form', ci.mod.relpath, fn0.lineno, 'ion_density accumulates %s per species, not its density' % vals[0][2].key()[:100])
            else:
                run.undecided('C05-R4', 'ion_density', 'accumulation not recognised')


_CX = 'cherab/core/model/beam/charge_exchange.pyx'
_BE = 'cherab/core/model/beam/beam_emission.pyx'
_PN = 'cherab/core/plasma/node.pyx'
MUTANTS = [
    dict(name='population-list-shared-between-states', file=_CX, edits=[
        dict(file=_CX, find="        self._excited_beam_data = []\n        for rate in rates:", replace="        self._excited_beam_data = []\n        population_data = []\n        for rate in rates:"),
        dict(file=_CX, find="                # obtain population coefficients for all plasma species with which the beam interacts\n                population_data = []\n", replace="")],
        expect='C05-R5'),
    dict(name='receiver-density-instead-of-ion-density', file=_CX, find="        ion_density = self._plasma.ion_density(x, y, z)", replace="        ion_density = self._target_species.distribution.density(x, y, z)", expect='C05-R2'),
    dict(name='temperature-energy-swapped', file=_CX, find="rate = self._ground_beam_rate.evaluate(interaction_energy,\n                                               receiver_temperature,", replace="rate = self._ground_beam_rate.evaluate(receiver_temperature,\n                                               interaction_energy,", expect='C05-R2'),
    dict(name='total-population-starts-at-zero', file=_CX, find="        total_population = 1", replace="        total_population = 0", expect='C05-R1'),
    dict(name='population-dropped-in-numerator', file=_CX, find="            rate += population * effective_rate", replace="            rate += effective_rate", expect='C05-R1'),
    dict(name='beam-density-guard-removed', file=_CX, find="        if donor_density == 0.0:\n            return spectrum\n", replace="", expect='C05-R3'),
    dict(name='zeff-not-squared', file=_PN, find="sum_nz2 += density * species.charge * species.charge", replace="sum_nz2 += density * species.charge", expect='C05-R4'),
    dict(name='emission-rate-not-charge-weighted', file=_BE, find="            target_ne = species.distribution.density(x, y, z) * target_z\n", replace="            target_ne = species.distribution.density(x, y, z)\n", expect='C05-R1'),
    dict(name='recip-2pi', file=_CX, find="radiance = RECIP_4_PI * donor_density * receiver_density * emission_rate", replace="radiance = RECIP_2_PI * donor_density * receiver_density * emission_rate", expect='C05-R1'),
    dict(name='ion-density-only-ions', file=_PN, find="        for species in self._composition:\n            ion_density += species.distribution.density(x, y, z)", replace="        for species in self._composition:\n            if species.charge > 1:\n                ion_density += species.distribution.density(x, y, z)", expect='C05-R4'),
    dict(name='interaction-energy-ignores-receiver-flow', file=_CX, find="interaction_velocity = donor_velocity.sub(receiver_velocity)", replace="interaction_velocity = donor_velocity", expect='C05-R2'),
]
TWINS = [
    dict(name='accumulation-reordered', file=_CX, find="            rate += population * effective_rate\n            total_population += population", replace="            total_population += population\n            rate += effective_rate * population"),
]
