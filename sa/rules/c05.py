"""C05 -- beam CX emission is a population-weighted mean, beam emission a charged sum (DESIGN section 5, C05)."""
import ast
from fractions import Fraction

from ..program import Program, dotted, norm
from ..report import AnalysisError
from ..flow import guards_of, facts, stores
from ..algebra import C, L, Rat, run_block
from ..exprcmp import EmEval, expr, body_env

FILES = ['cherab/core/model/beam/charge_exchange.pyx', 'cherab/core/model/beam/beam_emission.pyx', 'cherab/core/plasma/node.pyx']


def check(run):
    prog = Program()
    prog.load_many(FILES)
    for f in FILES:
        run.use_file(f)
    run.explanation = (
        'Decides structural necessary conditions of C05: (R1) radiance = (1/4pi) n_beam n_rec q with q = (q_1 + sum_i k_i q_i) / '
        '(1 + sum_i k_i), the same k_i in numerator and denominator (formal sums over the same loop) -- the weighted-mean form that '
        'implies min q <= q <= max q for k >= 0; beam population = sum (Z n) c / sum (Z n); beam emission = (1/4pi) n_beam sum_i '
        'Z_i n_i q_i(E_int,i, sum_j Z_j^2 n_j / Z_i, T_i); (R2) every BeamCXPEC.evaluate call, ground and excited, receives '
        '(interaction energy, receiver temperature, plasma.ion_density, plasma.z_effective, |B|) in that order by provenance, the '
        'interaction energy deriving from the beam direction, beam energy and receiver bulk velocity; (R3) zero beam density or '
        'zero receiver density/temperature returns the untouched spectrum before any rate is evaluated; (R4) Plasma.z_effective = '
        'sum n Z^2 / sum n Z over charge > 0 and ion_density = sum n. Does not decide numeric totals or provider behaviour for '
        'neutrals.')
    run.assumptions = ['rate objects are pure functions of their arguments', 'relative populations are non-negative']
    classes = {c.name: c for c in prog.classes.values() if not (c.name == 'ModelManager')}
    for n in ('BeamCXLine', 'BeamEmissionLine', 'Plasma'):
        if n not in classes:
            raise AnalysisError('anchored class vanished: %s' % n)
    cx, be, pl = classes['BeamCXLine'], classes['BeamEmissionLine'], classes['Plasma']
    _cx(run, cx)
    _be(run, be)
    _plasma(run, pl)


def _m(ci, name):
    fn = ci.methods.get(name)
    if fn is None:
        raise AnalysisError('anchored method vanished: %s.%s' % (ci.name, name))
    return fn


def _cx(run, ci):
    run.describe('C05-R1', 'radiance and weighted-mean forms')
    run.describe('C05-R2', 'BeamCXPEC.evaluate(E_int, T_rec, ion_density, z_effective, |B|) by provenance')
    run.describe('C05-R3', 'zero beam / receiver density returns the untouched spectrum before any rate evaluation')
    K = ci.mod.name + '|BeamCXLine|'
    fn = _m(ci, 'emission')
    bp, pp, bd, od, sp = [a.arg for a in fn.args.args[1:6]]
    e, rec = body_env(fn)
    call = [c for c in ast.walk(fn) if isinstance(c, ast.Call) and isinstance(c.func, ast.Attribute) and c.func.attr == 'add_line']
    run.subject('C05-R1')
    got = e.ev(call[0].args[0]) if call else None
    nb = 'self._beam.density(%s.x, %s.y, %s.z)' % (bp, bp, bp)
    XYZ = '(%s.x, %s.y, %s.z)' % (pp, pp, pp)
    nr = 'self._target_species.distribution.density' + XYZ
    rate_calls = [c for c in ast.walk(fn) if isinstance(c, ast.Call) and norm(c.func) == 'self._composite_cx_rate']
    if got is not None and rate_calls:
        q = e.ev(rate_calls[0])
        want = L('RECIP_4_PI') * expr(nb) * expr(nr) * q
        if got.eq(want):
            run.ok('C05-R1', 'CX radiance', 'RECIP_4_PI * n_beam * n_rec * q')
        else:
            run.fail('C05-R1', K + 'emission|radiance', ci.mod.relpath, fn.lineno, 'CX radiance is %s; documented: (1/4pi) n_beam n_receiver q' % got.key()[:220])
    else:
        run.fail('C05-R1', K + 'emission|radiance', ci.mod.relpath, fn.lineno, 'CX emission does not hand a radiance built from _composite_cx_rate to the line shape')
    # arguments of _composite_cx_rate: (x, y, z, E_int, donor_velocity, T_rec)
    run.subject('C05-R2')
    ok = False
    detail = None
    if rate_calls and len(rate_calls[0].args) == 6:
        a = [e.ev(v) for v in rate_calls[0].args]
        eint, dv, tr = a[3].key(), a[4].key(), a[5].key()
        detail = (eint[:120], tr[:80])
        ok = eint.startswith('ms_to_evamu(') and 'self._beam.get_energy()' in eint and bd + '.normalise()' in eint and 'bulk_velocity' in eint \
            and '.sub(' in eint and 'get_length()' in eint and tr == expr('self._target_species.distribution.effective_temperature' + XYZ).key() \
            and [v.key() for v in a[:3]] == [pp + '.x', pp + '.y', pp + '.z'] and 'evamu_to_ms(self._beam.get_energy())' in dv
    if ok:
        run.ok('C05-R2', 'interaction energy provenance', 'ms_to_evamu(|direction.normalise() * v(E_beam) - v_receiver|), T of the receiver species')
    else:
        run.fail('C05-R2', K + 'emission|interaction-energy', ci.mod.relpath, fn.lineno,
                 'the composite rate is evaluated with (E_int, T) = %s; documented: interaction energy from beam direction, beam energy and '
                 'receiver bulk velocity, receiver temperature' % (detail,))
    # R3 guards
    first_rate = min([c.lineno for c in ast.walk(fn) if isinstance(c, ast.Call) and norm(c.func) in ('self._composite_cx_rate', 'self._lineshape.add_line')] or [0])
    for q, what in (('donor_density', 'beam density'), ('receiver_density', 'receiver density')):
        run.subject('C05-R3')
        okg = False
        for n in fn.body:
            if isinstance(n, ast.If) and norm(n.test) in ('%s == 0.0' % q, '%s == 0' % q, '%s <= 0' % q, '%s <= 0.0' % q) and n.lineno < first_rate \
                    and len(n.body) == 1 and isinstance(n.body[0], ast.Return) and norm(n.body[0].value) == sp:
                okg = True
        if okg:
            run.ok('C05-R3', 'CX ' + what, '%s == 0 -> return spectrum before any rate' % q)
        else:
            run.fail('C05-R3', K + 'emission|guard:' + q, ci.mod.relpath, fn.lineno, 'CX emission does not return the untouched spectrum for zero %s before evaluating rates' % what)
    # composite rate
    fn = _m(ci, '_composite_cx_rate')
    x, y, z, ei, dv, tr = [a.arg for a in fn.args.args[1:7]]
    loops = [l for l in fn.body if isinstance(l, ast.For)]
    pre = [st for st in fn.body if not isinstance(st, (ast.For, ast.Return))]
    e = EmEval()
    run_block(e, [st for st in pre if st.lineno < (loops[0].lineno if loops else 10 ** 9)])
    run.subject('C05-R2')
    want_args = [L(ei), L(tr), expr('self._plasma.ion_density(%s, %s, %s)' % (x, y, z)), expr('self._plasma.z_effective(%s, %s, %s)' % (x, y, z)),
                 expr('self._plasma.get_b_field().evaluate(%s, %s, %s).get_length()' % (x, y, z))]
    evals = [c for c in ast.walk(fn) if isinstance(c, ast.Call) and isinstance(c.func, ast.Attribute) and c.func.attr == 'evaluate'
             and norm(c.func.value) in ('self._ground_beam_rate', 'cx_rate')]
    bad = []
    for c in evals:
        got_args = [e.ev(a) for a in c.args]
        if len(got_args) != 5 or any(not g.eq(w) for g, w in zip(got_args, want_args)):
            bad.append((c, [g.key()[:60] for g in got_args]))
    if len(evals) >= 2 and not bad:
        run.ok('C05-R2', 'effective coefficient arguments', '(E_int, T_rec, ion_density, z_effective, |B|) for ground and excited states')
    else:
        c, ga = bad[0] if bad else (fn, None)
        run.fail('C05-R2', K + '_composite_cx_rate|arguments:' + (norm(c.func.value) if bad else 'missing'), ci.mod.relpath, getattr(c, 'lineno', fn.lineno),
                 '%s.evaluate receives %s; documented order: (interaction energy, receiver temperature, total ion density, Z-effective, |B|)'
                 % (norm(c.func.value) if bad else 'rate', ga))
    run.subject('C05-R1')
    ok = False
    detail = None
    if len(loops) == 1 and norm(loops[0].iter) == 'self._excited_beam_data':
        e2 = EmEval(dict(e.env))
        e2.env['rate'] = L('Q1')
        e2.env['total_population'] = L('P0')
        run_block(e2, loops[0].body)
        k = e2.env.get('population')
        qi = [c for c in evals if norm(c.func.value) == 'cx_rate']
        if k is not None and qi:
            qv = e2.ev(qi[0])
            num, den = e2.env.get('rate'), e2.env.get('total_population')
            init_rate = e.env.get('rate')
            init_pop = e.env.get('total_population')
            post = [st for st in fn.body if st.lineno > loops[0].lineno]
            div = [st for st in post if isinstance(st, ast.AugAssign) and isinstance(st.op, ast.Div) and norm(st.target) == 'rate' and norm(st.value) == 'total_population']
            ret = [st for st in post if isinstance(st, ast.Return) and norm(st.value) == 'rate']
            detail = (num, den)
            ok = num.eq(L('Q1') + k * qv) and den.eq(L('P0') + k) and init_pop is not None and init_pop.eq(C(1)) \
                and init_rate is not None and init_rate.key().startswith('self._ground_beam_rate.evaluate(') and bool(div) and bool(ret) \
                and k.key().startswith('self._beam_population(')
    if ok:
        run.ok('C05-R1', 'population-weighted mean', 'q = (q_1 + sum k_i q_i) / (1 + sum k_i), same k_i in both sums')
    else:
        run.fail('C05-R1', K + '_composite_cx_rate|weighted-mean', ci.mod.relpath, fn.lineno,
                 'the composite coefficient is not (q_1 + sum_i k_i q_i) / (1 + sum_i k_i) with the same populations in both sums: per excited state '
                 'numerator/denominator become %s' % (detail,))
    # beam population
    fn = _m(ci, '_beam_population')
    _charged_sum(run, ci, fn, 'population_data', 'coeff', mean=True)


def _charged_sum(run, ci, fn, data, cf_hint, mean):
    """sum_i (Z_i n_i) c_i(E_int,i, sum_j Z_j^2 n_j / Z_i, T_i) [ / sum_i Z_i n_i ]"""
    K = '%s|%s|%s|' % (ci.mod.name, ci.name, fn.name)
    x, y, z, bv = [a.arg for a in fn.args.args[1:5]]
    XYZ = '(%s, %s, %s)' % (x, y, z)
    loops = [l for l in fn.body if isinstance(l, ast.For)]
    run.subject('C05-R1')
    if len(loops) != 2:
        run.undecided('C05-R1', '%s.%s' % (ci.name, fn.name), 'expected two loops')
        return
    e1 = EmEval({'density_sum': L('DS0')})
    run_block(e1, loops[0].body)
    sp = loops[0].target.elts[0].id
    want = L('DS0') + expr('%s.charge ** 2 * %s.distribution.density%s' % (sp, sp, XYZ))
    ok1 = e1.env.get('density_sum') is not None and e1.env['density_sum'].eq(want)
    acc = [st.target.id for st in loops[1].body if isinstance(st, ast.AugAssign) and isinstance(st.target, ast.Name)]
    env0 = {'density_sum': L('DS')}
    for a in acc:
        env0[a] = L('ACC_' + a)
    e2 = EmEval(env0)
    run_block(e2, loops[1].body)
    sp2, cf = [t.id for t in loops[1].target.elts]
    N = expr('%s.distribution.density%s' % (sp2, XYZ))
    T = expr('%s.distribution.effective_temperature%s' % (sp2, XYZ))
    call = [c for c in ast.walk(loops[1]) if isinstance(c, ast.Call) and norm(c.func) == cf + '.evaluate']
    ok2 = False
    detail = None
    if call and len(call[0].args) == 3 and acc:
        a = [e2.ev(v) for v in call[0].args]
        term = e2.env[acc[0]] - L('ACC_' + acc[0])
        detail = term.key()[:200]
        ok2 = a[1].eq(L('DS') / L(sp2 + '.charge')) and a[2].eq(T) and a[0].key().startswith('ms_to_evamu(') and 'bulk_velocity' in a[0].key() and bv in a[0].key() \
            and term.eq(N * L(sp2 + '.charge') * L('%s.evaluate(%s)' % (cf, ', '.join(v.key() for v in a))))
        if mean:
            ok2 = ok2 and len(acc) == 2 and (e2.env[acc[1]] - L('ACC_' + acc[1])).eq(N * L(sp2 + '.charge'))
            ret = [r for r in ast.walk(fn) if isinstance(r, ast.Return)]
            ok2 = ok2 and ret and norm(ret[-1].value) == '%s / %s' % (acc[0], acc[1])
        else:
            ret = [r for r in ast.walk(fn) if isinstance(r, ast.Return)]
            ok2 = ok2 and ret and norm(ret[-1].value) == acc[0]
    if ok1 and ok2 and all(norm(l.iter) == norm(loops[0].iter) for l in loops):
        run.ok('C05-R1', '%s.%s' % (ci.name, fn.name), 'sum (Z n) c(E_int, sum Z^2 n / Z, T)%s' % (' / sum (Z n)' if mean else ''))
    else:
        run.fail('C05-R1', K + 'charged-sum', ci.mod.relpath, fn.lineno,
                 '%s.%s: term is %s (sum Z^2 n ok: %s); documented: sum_i (Z_i n_i) c_i(E_int,i, sum_j Z_j^2 n_j / Z_i, T_i)%s'
                 % (ci.name, fn.name, detail, ok1, ' / sum_i Z_i n_i' if mean else ''))


def _be(run, ci):
    K = ci.mod.name + '|BeamEmissionLine|'
    fn = _m(ci, 'emission')
    bp, pp, bd, od, sp = [a.arg for a in fn.args.args[1:6]]
    e, rec = body_env(fn)
    call = [c for c in ast.walk(fn) if isinstance(c, ast.Call) and isinstance(c.func, ast.Attribute) and c.func.attr == 'add_line']
    run.subject('C05-R1')
    got = e.ev(call[0].args[0]) if call else None
    rc = [c for c in ast.walk(fn) if isinstance(c, ast.Call) and norm(c.func) == 'self._beam_emission_rate']
    if got is not None and rc:
        want = L('RECIP_4_PI') * expr('self._beam.density(%s.x, %s.y, %s.z)' % (bp, bp, bp)) * e.ev(rc[0])
        a = [e.ev(v).key() for v in rc[0].args]
        okargs = a[:3] == [pp + '.x', pp + '.y', pp + '.z'] and 'evamu_to_ms(self._beam.get_energy())' in a[3] and bd + '.normalise()' in a[3]
        if got.eq(want) and okargs:
            run.ok('C05-R1', 'beam emission radiance', 'RECIP_4_PI * n_beam * rate(plasma point, beam velocity)')
        else:
            run.fail('C05-R1', K + 'emission|radiance', ci.mod.relpath, fn.lineno, 'beam emission radiance is %s with rate arguments %s' % (got.key()[:200], a))
    else:
        run.fail('C05-R1', K + 'emission|radiance', ci.mod.relpath, fn.lineno, 'beam emission does not hand a radiance built from _beam_emission_rate to the line shape')
    run.subject('C05-R3')
    first_rate = min([c.lineno for c in rc] or [0])
    okg = any(isinstance(n, ast.If) and norm(n.test) in ('beam_density == 0.0', 'beam_density == 0', 'beam_density <= 0', 'beam_density <= 0.0') and n.lineno < first_rate
              and len(n.body) == 1 and isinstance(n.body[0], ast.Return) and norm(n.body[0].value) == sp for n in fn.body)
    if okg:
        run.ok('C05-R3', 'beam emission beam density', 'beam_density == 0 -> return spectrum before the rate')
    else:
        run.fail('C05-R3', K + 'emission|guard:beam_density', ci.mod.relpath, fn.lineno, 'beam emission does not return the untouched spectrum for zero beam density')
    _charged_sum(run, ci, _m(ci, '_beam_emission_rate'), 'self._rates_list', 'rate_func', mean=False)


def _plasma(run, ci):
    run.describe('C05-R4', 'Plasma.z_effective = sum n Z^2 / sum n Z over charge > 0; ion_density = sum n')
    K = ci.mod.name + '|Plasma|'
    fn = _m(ci, 'z_effective')
    x, y, z = [a.arg for a in fn.args.args[1:4]]
    XYZ = '(%s, %s, %s)' % (x, y, z)
    loops = [l for l in fn.body if isinstance(l, ast.For)]
    run.subject('C05-R4')
    ok = False
    detail = None
    if len(loops) == 1 and norm(loops[0].iter) == 'self._composition':
        sp = loops[0].target.id
        ifs = [s for s in loops[0].body if isinstance(s, ast.If)]
        if len(ifs) == 1 and norm(ifs[0].test) == sp + '.charge > 0':
            e = EmEval({'sum_nz': L('A0'), 'sum_nz2': L('B0')})
            run_block(e, ifs[0].body)
            N = expr('%s.distribution.density%s' % (sp, XYZ))
            Z = L(sp + '.charge')
            detail = (e.env['sum_nz'], e.env['sum_nz2'])
            ret = [r for r in ast.walk(fn) if isinstance(r, ast.Return)]
            ok = e.env['sum_nz'].eq(L('A0') + N * Z) and e.env['sum_nz2'].eq(L('B0') + N * Z * Z) and ret and norm(ret[-1].value) == 'sum_nz2 / sum_nz'
    if ok:
        run.ok('C05-R4', 'z_effective', 'sum n Z^2 / sum n Z over charge > 0')
    else:
        run.fail('C05-R4', K + 'z_effective|form', ci.mod.relpath, fn.lineno, 'z_effective accumulates %s; documented: sum n Z^2 / sum n Z over ions' % (detail,))
    fn = _m(ci, 'ion_density')
    x, y, z = [a.arg for a in fn.args.args[1:4]]
    loops = [l for l in fn.body if isinstance(l, ast.For)]
    run.subject('C05-R4')
    ok = False
    if len(loops) == 1 and norm(loops[0].iter) == 'self._composition':
        sp = loops[0].target.id
        e = EmEval({'ion_density': L('A0')})
        run_block(e, loops[0].body, follow_if=True)
        ok = e.env['ion_density'].eq(L('A0') + expr('%s.distribution.density(%s, %s, %s)' % (sp, x, y, z))) and not any(isinstance(s, ast.If) for s in loops[0].body)
    if ok:
        run.ok('C05-R4', 'ion_density', 'sum over all species of n')
    else:
        run.fail('C05-R4', K + 'ion_density|form', ci.mod.relpath, fn.lineno, 'ion_density is not the plain sum of the species densities')


_CX = 'cherab/core/model/beam/charge_exchange.pyx'
_BE = 'cherab/core/model/beam/beam_emission.pyx'
_PN = 'cherab/core/plasma/node.pyx'
MUTANTS = [
    dict(name='receiver-density-instead-of-ion-density', file=_CX, find="        ion_density = self._plasma.ion_density(x, y, z)", replace="        ion_density = self._target_species.distribution.density(x, y, z)", expect='C05-R2'),
    dict(name='temperature-energy-swapped', file=_CX, find="rate = self._ground_beam_rate.evaluate(interaction_energy,\n                                               receiver_temperature,", replace="rate = self._ground_beam_rate.evaluate(receiver_temperature,\n                                               interaction_energy,", expect='C05-R2'),
    dict(name='total-population-starts-at-zero', file=_CX, find="        total_population = 1", replace="        total_population = 0", expect='C05-R1'),
    dict(name='population-dropped-in-numerator', file=_CX, find="            rate += population * effective_rate", replace="            rate += effective_rate", expect='C05-R1'),
    dict(name='beam-density-guard-removed', file=_CX, find="        if donor_density == 0.0:\n            return spectrum\n", replace="", expect='C05-R3'),
    dict(name='zeff-not-squared', file=_PN, find="sum_nz2 += density * species.charge * species.charge", replace="sum_nz2 += density * species.charge", expect='C05-R4'),
    dict(name='emission-rate-not-charge-weighted', file=_BE, find="            target_ne = species.distribution.density(x, y, z) * target_z\n", replace="            target_ne = species.distribution.density(x, y, z)\n", expect='C05-R1'),
    dict(name='recip-2pi', file=_CX, find="radiance = RECIP_4_PI * donor_density * receiver_density * emission_rate", replace="radiance = RECIP_2_PI * donor_density * receiver_density * emission_rate", expect='C05-R1'),
    dict(name='ion-density-only-ions', file=_PN, find="        for species in self._composition:\n            ion_density += species.distribution.density(x, y, z)", replace="        for species in self._composition:\n            if species.charge > 1:\n                ion_density += species.distribution.density(x, y, z)", expect='C05-R4'),
    dict(name='interaction-energy-ignores-receiver-flow', file=_CX, find="interaction_velocity = donor_velocity.sub(receiver_velocity)", replace="interaction_velocity = donor_velocity", expect='C05-R2'),
]
TWINS = [
    dict(name='accumulation-reordered', file=_CX, find="            rate += population * effective_rate\n            total_population += population", replace="            total_population += population\n            rate += effective_rate * population"),
]
