"""Entry point: python -m sa.main <ID> [--tier quick|thorough] [--replay path]

Exit codes: 0 property held on everything analysed (known findings printed),
1 violation not in known_findings.json, 2 ANALYSIS-ERROR (never a silent pass).
"""
import importlib
import json
import os
import sys
import traceback

from .report import Run, AnalysisError, write_error_evidence


def main(argv):
    if not argv:
        print('usage: check <ID> [--tier quick|thorough] [--replay path]')
        return 2
    pid = argv[0].upper()
    tier = os.environ.get('VERIF_TIER', 'quick')
    replay = None
    i = 1
    while i < len(argv):
        if argv[i] == '--tier':
            tier = argv[i + 1]
            i += 2
        elif argv[i] == '--replay':
            replay = argv[i + 1]
            i += 2
        else:
            i += 1
    if tier not in ('quick', 'thorough'):
        tier = 'quick'
    if replay:
        with open(replay) as fh:
            d = json.load(fh)
        print('replay: re-running the check for %s; the recorded finding was:' % pid)
        print(json.dumps(d, indent=1))
    try:
        mod = importlib.import_module('sa.rules.%s' % pid.lower())
        run = Run(pid, tier)
        mod.check(run)
        if tier == 'thorough':
            if hasattr(mod, 'thorough'):
                mod.thorough(run)
            from . import selftest
            selftest.run_selftest(pid, mod, run)
        return run.finish()
    except AnalysisError as e:
        # an anchored construct is gone.  Before giving up, look for the plain reason with the generic rules (a deleted defining statement
        # leaves a name unbound, ...): a positive diagnosis in the files of the property is a violation, not an analysis failure.
        try:
            if _safety_net(run, pid, str(e)):
                return run.finish()
        except Exception:
            traceback.print_exc()
        print('ANALYSIS-ERROR property=%s %s' % (pid, e))
        write_error_evidence(pid, tier, str(e))
        return 2
    except Exception as e:
        traceback.print_exc()
        print('ANALYSIS-ERROR property=%s %s: %s' % (pid, type(e).__name__, e))
        write_error_evidence(pid, tier, '%s: %s' % (type(e).__name__, e))
        return 2


def _safety_net(run, pid, why):
    from .program import Program
    from .cachekey import check_caches
    from .report import load_known, REPO
    files = sorted(f for f in run.files if os.path.exists(os.path.join(REPO, f)))
    if not files:
        return False
    before = len(run.findings)
    prog = Program()
    prog.load_many(files)
    mods = [m for m in prog.modules.values() if m.relpath in files]
    check_caches(run, mods, pid + '-K', prog=prog)
    known = {k['key'] for k in load_known() if 'key' in k}
    fresh = [f for f in run.findings if f['key'] not in known]
    if not fresh:
        del run.findings[before:]
        return False
    run.notes.append('NOTE: the anchored analysis stopped (%s); the findings reported are those of the rules that ran and of the generic rules '
                     'applied to the files of the property' % why)
    print('NOTE property=%s anchored analysis stopped: %s' % (pid, why))
    return True


if __name__ == '__main__':
    sys.exit(main(sys.argv[1:]))
