"""Entry point: python -m sa.main <ID> [--tier quick|thorough] [--replay path]

Exit codes: 0 property held on everything analysed (known findings printed),
1 violation not in known_findings.json, 2 ANALYSIS-ERROR (never a silent pass).
"""
import importlib
import json
import os
import sys
import traceback

from .report import Run, AnalysisError, write_error_evidence


def main(argv):
    if not argv:
        print('usage: check <ID> [--tier quick|thorough] [--replay path]')
        return 2
    pid = argv[0].upper()
    tier = os.environ.get('VERIF_TIER', 'quick')
    replay = None
    i = 1
    while i < len(argv):
        if argv[i] == '--tier':
            tier = argv[i + 1]
            i += 2
        elif argv[i] == '--replay':
            replay = argv[i + 1]
            i += 2
        else:
            i += 1
    if tier not in ('quick', 'thorough'):
        tier = 'quick'
    if replay:
        with open(replay) as fh:
            d = json.load(fh)
        print('replay: re-running the check for %s; the recorded finding was:' % pid)
        print(json.dumps(d, indent=1))
    try:
        mod = importlib.import_module('sa.rules.%s' % pid.lower())
        run = Run(pid, tier)
        mod.check(run)
        if tier == 'thorough':
            if hasattr(mod, 'thorough'):
                mod.thorough(run)
            from . import selftest
            selftest.run_selftest(pid, mod, run)
        return run.finish()
    except AnalysisError as e:
        print('ANALYSIS-ERROR property=%s %s' % (pid, e))
        write_error_evidence(pid, tier, str(e))
        return 2
    except Exception as e:
        traceback.print_exc()
        print('ANALYSIS-ERROR property=%s %s: %s' % (pid, type(e).__name__, e))
        write_error_evidence(pid, tier, '%s: %s' % (type(e).__name__, e))
        return 2


if __name__ == '__main__':
    sys.exit(main(sys.argv[1:]))
