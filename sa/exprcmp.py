"""Shared helpers: evaluator that keeps method calls as opaque leaves, and parsing of documented formulas."""
import ast

from .program import dotted, norm
from .algebra import SymEval, C, L, Rat, run_block


class EmEval(SymEval):
    """Method calls are opaque leaves spelled with their (inlined) receiver; locals are inlined through env."""

    TRANSPARENT = ('float', 'int')

    def call(self, n):
        f = n.func
        if isinstance(f, ast.Attribute):
            if isinstance(f.value, (ast.Name, ast.Attribute)) and (dotted(f.value) in self.env):
                recv = self.env[dotted(f.value)].key()
            elif isinstance(f.value, ast.Call):
                recv = self.ev(f.value).key()
            else:
                recv = norm(f.value)
                # a chain hanging off an inlined local (species.distribution with species bound to a value): spell it with that value
                root = f.value
                chain = []
                while isinstance(root, ast.Attribute):
                    chain.append(root.attr)
                    root = root.value
                if isinstance(root, ast.Name) and root.id in self.env and chain:
                    recv = '.'.join([self.env[root.id].key()] + chain[::-1])
            return L('%s.%s(%s)' % (recv, f.attr, ', '.join(self.ev(a).key() for a in n.args)))
        return super().call(n)

    def attribute(self, n):
        # attribute of an inlined local:  v.length with v in env
        if isinstance(n.value, ast.Name) and n.value.id in self.env and dotted(n) not in self.env:
            return L('%s.%s' % (self.env[n.value.id].key(), n.attr))
        return super().attribute(n)


def expr(src, env=None, cls=EmEval):
    e = cls(env)
    return e.ev(ast.parse(src, mode='eval').body)


def body_env(fn, follow_if=False, cls=EmEval, env=None):
    e = cls(env)
    rec = []
    run_block(e, fn.body, rec, follow_if=follow_if)
    return e, rec
