"""Shape normalisation of function bodies before structural rules are applied.

Two behaviour-preserving rewrites make the rules independent of the two commonest refactorings
("extract helper" and "introduce local"):

flatten(fn, lookup)      calls of private helpers (resolved by `lookup`) are replaced by the helper's
                         body, parameters substituted by the arguments, helper locals renamed; early
                         returns of the helper become `break` out of a one-trip loop, so that guard
                         dominance (flow.guards_of) sees the helper's tests where the call stood.
propagate(fn)            every local that has exactly one definition, whose definition dominates the
                         use and whose operands are not reassigned, is replaced by its defining
                         expression at each use (copy / expression propagation).

Both return new trees; line numbers of copied nodes are those of their origin (reports stay clickable).
`setattr(o, 'name', v)` / `getattr(o, 'name')` with a literal name are rewritten to attribute syntax.
"""
import ast
import copy

from .program import dotted, norm

_SIMPLE = (ast.Assign, ast.AugAssign, ast.AnnAssign, ast.Expr, ast.Return)


# ----------------------------------------------------------------------------------------------- helpers
def _assigned_names(fn):
    out = {}
    for n in ast.walk(fn):
        tg = []
        if isinstance(n, ast.Assign):
            tg = n.targets
        elif isinstance(n, ast.AugAssign):
            tg = [n.target]
        elif isinstance(n, ast.AnnAssign):
            tg = [n.target] if n.value is not None else []      # a bare declaration (cdef double x) assigns nothing
        elif isinstance(n, ast.For):
            tg = [n.target]
        elif isinstance(n, ast.With):
            tg = [i.optional_vars for i in n.items if i.optional_vars is not None]
        elif isinstance(n, ast.ExceptHandler) and n.name:
            out[n.name] = out.get(n.name, 0) + 1
        elif isinstance(n, ast.NamedExpr):
            tg = [n.target]
        for t in tg:
            for x in ast.walk(t):
                if isinstance(x, ast.Name) and isinstance(x.ctx, (ast.Store, ast.Del)):
                    out[x.id] = out.get(x.id, 0) + 1
    return out


class _Subst(ast.NodeTransformer):
    def __init__(self, mapping):
        self.mapping = mapping

    def visit_Name(self, n):
        if n.id in self.mapping and isinstance(n.ctx, ast.Load):
            return ast.copy_location(copy.deepcopy(self.mapping[n.id]), n)
        return n


class _Rename(ast.NodeTransformer):
    def __init__(self, mapping):
        self.mapping = mapping

    def visit_Name(self, n):
        if n.id in self.mapping:
            return ast.copy_location(ast.Name(id=self.mapping[n.id], ctx=n.ctx), n)
        return n


class _AttrCalls(ast.NodeTransformer):
    """setattr(o, 'a', v) -> o.a = v ; getattr(o, 'a') -> o.a"""

    def visit_Expr(self, n):
        self.generic_visit(n)
        c = n.value
        if isinstance(c, ast.Call) and dotted(c.func) == 'setattr' and len(c.args) == 3 and isinstance(c.args[1], ast.Constant) \
                and isinstance(c.args[1].value, str):
            t = ast.Attribute(value=c.args[0], attr=c.args[1].value, ctx=ast.Store())
            return ast.copy_location(ast.Assign(targets=[ast.copy_location(t, n)], value=c.args[2], lineno=n.lineno), n)
        return n

    def visit_Call(self, n):
        self.generic_visit(n)
        if dotted(n.func) == 'getattr' and len(n.args) == 2 and isinstance(n.args[1], ast.Constant) and isinstance(n.args[1].value, str):
            return ast.copy_location(ast.Attribute(value=n.args[0], attr=n.args[1].value, ctx=ast.Load()), n)
        return n


def _pure_arg(a):
    if isinstance(a, (ast.Name, ast.Constant)):
        return True
    if isinstance(a, ast.Attribute):
        return _pure_arg(a.value)
    if isinstance(a, ast.UnaryOp):
        return _pure_arg(a.operand)
    return False


def _returns_in_loop(fn):
    def walk(stmts, inloop):
        for st in stmts:
            if isinstance(st, ast.Return) and inloop:
                return True
            if isinstance(st, (ast.FunctionDef, ast.ClassDef)):
                continue
            for f in ('body', 'orelse', 'finalbody'):
                b = getattr(st, f, None)
                if isinstance(b, list) and b and isinstance(b[0], ast.stmt):
                    if walk(b, inloop or isinstance(st, (ast.For, ast.While))):
                        return True
            if isinstance(st, ast.Try):
                for h in st.handlers:
                    if walk(h.body, inloop):
                        return True
        return False
    return walk(fn.body, False)


def _tail_only(fn):
    """Straight-line body ending in one return (docstrings / declarations ignored)."""
    body = [s for s in fn.body if not (isinstance(s, ast.Expr) and isinstance(s.value, ast.Constant))]
    if not body or not isinstance(body[-1], ast.Return):
        return None
    # any statements may precede the final return as long as none of them returns (loops, ifs and tries run to their end)
    for s in body[:-1]:
        if any(isinstance(x, ast.Return) for x in ast.walk(s)):
            return None
    return body


def _params(fn, skip_self):
    ps = [a.arg for a in fn.args.posonlyargs + fn.args.args]
    if skip_self and ps and ps[0] in ('self', 'cls'):
        ps = ps[1:]
    return ps


def _bind(call, fn, skip_self):
    ps = _params(fn, skip_self)
    if fn.args.vararg or fn.args.kwarg or fn.args.kwonlyargs:
        return None
    out = {}
    if len(call.args) > len(ps) or any(isinstance(a, ast.Starred) for a in call.args):
        return None
    for p, a in zip(ps, call.args):
        out[p] = a
    for k in call.keywords:
        if k.arg is None or k.arg not in ps or k.arg in out:
            return None
        out[k.arg] = k.value
    dfl = fn.args.defaults
    for p, d in zip(ps[len(ps) - len(dfl):], dfl):
        out.setdefault(p, d)
    if set(out) != set(ps):
        return None
    return out


# ----------------------------------------------------------------------------------------------- flatten
def _as_expression(body):
    """The value a helper returns as one expression, when its body is 'return E' or a chain 'if T: return A [elif ...] ... return B'
    (docstrings and bare declarations ignored); None otherwise."""
    body = [x for x in body if not (isinstance(x, ast.Expr) and isinstance(x.value, ast.Constant))
            and not (isinstance(x, ast.AnnAssign) and x.value is None) and not isinstance(x, ast.Pass)]
    if not body:
        return None
    st = body[0]
    if isinstance(st, ast.Return):
        return st.value if st.value is not None else ast.Constant(value=None)
    if isinstance(st, ast.If):
        a = _as_expression(st.body)
        if a is None:
            return None
        b = _as_expression(st.orelse) if st.orelse else _as_expression(body[1:])
        if b is None:
            return None
        if st.orelse and len(body) > 1:
            return None
        return ast.copy_location(ast.IfExp(test=st.test, body=a, orelse=b), st)
    return None


class _Flattener:
    def __init__(self, lookup, depth, keep):
        self.lookup = lookup
        self.depth = depth
        self.keep = set(keep)
        self.k = 0
        self.inlined = []

    def block(self, stmts, depth, stack):
        out = []
        for st in stmts:
            out.extend(self.stmt(st, depth, stack))
        return out

    def stmt(self, st, depth, stack):
        if isinstance(st, (ast.FunctionDef, ast.ClassDef)):
            return [st]
        if isinstance(st, _SIMPLE):
            return self.simple(st, depth, stack)
        st = copy.copy(st)
        # headers of compound statements (the test of an if / while, the iterable of a for): helpers that are a single 'return <expr>'
        # are replaced by that expression
        for f in ('test', 'iter'):
            h = getattr(st, f, None)
            if isinstance(h, ast.AST):
                setattr(st, f, self._expr_helpers(h, depth, stack))
        for f in ('body', 'orelse', 'finalbody'):
            b = getattr(st, f, None)
            if isinstance(b, list) and b and isinstance(b[0], ast.stmt):
                setattr(st, f, self.block(b, depth, stack))
        if isinstance(st, ast.Try):
            hs = []
            for h in st.handlers:
                h = copy.copy(h)
                h.body = self.block(h.body, depth, stack)
                hs.append(h)
            st.handlers = hs
        return [st]

    def _expr_helpers(self, e, depth, stack):
        if depth <= 0:
            return e
        for _ in range(8):
            done = True
            for c in [c for c in ast.walk(e) if isinstance(c, ast.Call)]:
                r = self.lookup(c)
                if r is None:
                    continue
                callee, skip_self, name = r
                if name in self.keep or name in stack:
                    continue
                expr = _as_expression(callee.body)
                if expr is None:
                    continue
                b = _bind(c, callee, skip_self)
                if b is None or not all(_pure_arg(a) for a in b.values()):
                    continue
                val = _Subst(dict(b)).visit(copy.deepcopy(expr))
                ast.copy_location(val, c)
                ast.fix_missing_locations(val)
                if e is c:
                    e = val
                else:
                    e = _replace_node(e, c, val)
                self.inlined.append(name)
                done = False
                break
            if done:
                break
        return e

    def _candidates(self, st):
        """Call nodes of st that may be inlined (not under lambda / comprehension / boolean short-circuit / conditional expression)."""
        out = []

        def walk(n, blocked):
            if isinstance(n, (ast.Lambda, ast.ListComp, ast.SetComp, ast.DictComp, ast.GeneratorExp)):
                return
            if isinstance(n, ast.Call) and not blocked:
                out.append(n)
            for f, v in ast.iter_fields(n):
                kids = v if isinstance(v, list) else [v]
                for i, c in enumerate(kids):
                    if isinstance(c, ast.AST):
                        b = blocked
                        if isinstance(n, ast.BoolOp) and i > 0:
                            b = True
                        if isinstance(n, ast.IfExp) and f in ('body', 'orelse'):
                            b = True
                        walk(c, b)
        walk(st, False)
        return out

    def simple(self, st, depth, stack):
        if depth <= 0:
            return [st]
        for c in self._candidates(st):
            r = self.lookup(c)
            if r is None:
                continue
            callee, skip_self, name = r
            if name in self.keep or name in stack or _returns_in_loop(callee):
                continue
            if any(isinstance(x, (ast.Yield, ast.YieldFrom, ast.Global, ast.Nonlocal)) for x in ast.walk(callee)):
                continue
            b = _bind(c, callee, skip_self)
            if b is None:
                continue
            if isinstance(st, ast.Return) and st.value is c:
                # a tail call: returning from the helper is returning from the caller, so its body (returns included) replaces the statement
                self.k += 1
                k = self.k
                assigned = _assigned_names(callee)
                ren = {n: '__h%d_%s' % (k, n) for n in assigned if n not in b}
                pre, sub = [], {}
                for p, a in b.items():
                    if p not in assigned and _pure_arg(a):
                        sub[p] = a
                    else:
                        ren[p] = '__h%d_%s' % (k, p)
                        pre.append(ast.copy_location(ast.Assign(targets=[ast.Name(id=ren[p], ctx=ast.Store())], value=copy.deepcopy(a), lineno=c.lineno), c))
                body = [copy.deepcopy(x) for x in callee.body if not (isinstance(x, ast.Expr) and isinstance(x.value, ast.Constant))]
                body = [_AttrCalls().visit(_Rename(ren).visit(_Subst(sub).visit(x))) for x in body]
                for x in pre + body:
                    ast.fix_missing_locations(x)
                self.inlined.append(name)
                return self.block(pre + body, depth - 1, stack + (name,))
            expr = _as_expression(callee.body)
            if expr is not None and isinstance(expr, ast.IfExp) and all(_pure_arg(a) for a in b.values()):
                val = _Subst(dict(b)).visit(copy.deepcopy(expr))
                ast.copy_location(val, c)
                ast.fix_missing_locations(val)
                self.inlined.append(name)
                return self.simple(_replace_node(st, c, val), depth, stack)
            self.k += 1
            k = self.k
            pre, ret = self._expand(callee, b, k, c)
            self.inlined.append(name)
            pre = self.block(pre, depth - 1, stack + (name,))
            if isinstance(st, ast.Expr) and st.value is c:
                return pre
            st2 = _replace_node(st, c, ret)
            return pre + self.simple(st2, depth, stack)
        return [st]

    def _expand(self, callee, binding, k, call):
        assigned = _assigned_names(callee)
        ps = list(binding)
        ren = {n: '__h%d_%s' % (k, n) for n in assigned if n not in ps}
        pre = []
        sub = {}
        for p, a in binding.items():
            if p not in assigned and _pure_arg(a):
                sub[p] = a
            else:
                t = '__h%d_%s' % (k, p)
                ren[p] = t
                pre.append(ast.copy_location(ast.Assign(targets=[ast.Name(id=t, ctx=ast.Store())], value=copy.deepcopy(a), lineno=call.lineno), call))
        body = [copy.deepcopy(s) for s in callee.body
                if not (isinstance(s, ast.Expr) and isinstance(s.value, ast.Constant))]
        body = [_AttrCalls().visit(_Rename(ren).visit(_Subst(sub).visit(s))) for s in body]
        for s in body:
            ast.fix_missing_locations(s)
        tail = _tail_only(ast.FunctionDef(name='_', args=callee.args, body=body, decorator_list=[], lineno=0)) if body else None
        retname = '__h%d_ret' % k
        if not any(isinstance(x, ast.Return) for s_ in body for x in ast.walk(s_)):
            # a procedure: its statements stand where the call stood (guards it raises from dominate what follows)
            return pre + body, ast.Constant(value=None)
        if tail is not None:
            ret = tail[-1].value if tail[-1].value is not None else ast.Constant(value=None)
            return pre + tail[:-1], ret
        # general case: one-trip loop, return -> assign + break
        body = _returns_to_breaks(body, retname)
        loop = ast.For(target=ast.Name(id='__h%d_once' % k, ctx=ast.Store()), iter=ast.Tuple(elts=[ast.Constant(value=0)], ctx=ast.Load()),
                       body=body or [ast.Pass()], orelse=[], lineno=call.lineno, col_offset=0)
        init = ast.Assign(targets=[ast.Name(id=retname, ctx=ast.Store())], value=ast.Constant(value=None), lineno=call.lineno)
        for n in (loop, init):
            ast.copy_location(n, call)
            ast.fix_missing_locations(n)
        return pre + [init, loop], ast.copy_location(ast.Name(id=retname, ctx=ast.Load()), call)


def _returns_to_breaks(stmts, retname):
    out = []
    for st in stmts:
        if isinstance(st, ast.Return):
            if st.value is not None:
                out.append(ast.copy_location(ast.Assign(targets=[ast.Name(id=retname, ctx=ast.Store())], value=st.value, lineno=st.lineno), st))
            out.append(ast.copy_location(ast.Break(), st))
            continue
        if isinstance(st, (ast.FunctionDef, ast.ClassDef)):
            out.append(st)
            continue
        st = copy.copy(st)
        for f in ('body', 'orelse', 'finalbody'):
            b = getattr(st, f, None)
            if isinstance(b, list) and b and isinstance(b[0], ast.stmt):
                setattr(st, f, _returns_to_breaks(b, retname))
        if isinstance(st, ast.Try):
            hs = []
            for h in st.handlers:
                h = copy.copy(h)
                h.body = _returns_to_breaks(h.body, retname)
                hs.append(h)
            st.handlers = hs
        out.append(st)
    for s in out:
        ast.fix_missing_locations(s)
    return out


def _replace_node(root, old, new):
    class R(ast.NodeTransformer):
        def visit(self, n):
            if n is old:
                return ast.copy_location(copy.deepcopy(new), old)
            return super().visit(n)
    r2 = R().visit(copy.copy(root)) if False else None
    # NodeTransformer mutates in place: work on a shallow-copied spine
    root2 = _copy_spine(root, old)
    return R().visit(root2)


def _copy_spine(root, target):
    """Copy the nodes on the path from root to target so the original statement is left untouched."""
    if root is target:
        return root
    new = copy.copy(root)
    for f, v in ast.iter_fields(root):
        if isinstance(v, list):
            nv = []
            for c in v:
                if isinstance(c, ast.AST) and any(x is target for x in ast.walk(c)):
                    nv.append(_copy_spine(c, target))
                else:
                    nv.append(c)
            setattr(new, f, nv)
        elif isinstance(v, ast.AST) and any(x is target for x in ast.walk(v)):
            setattr(new, f, _copy_spine(v, target))
    return new


def flatten(fn, lookup, depth=3, keep=()):
    """New FunctionDef with private-helper calls expanded in place. lookup(call) -> (callee FunctionDef, skip_self, name) | None."""
    fl = _Flattener(lookup, depth, keep)
    new = copy.copy(fn)
    new.body = fl.block(fn.body, depth, (fn.name,))
    new.body = [_AttrCalls().visit(copy.deepcopy(s)) if any(isinstance(c, ast.Call) and dotted(c.func) in ('setattr', 'getattr') for c in ast.walk(s)) else s
                for s in new.body]
    new._inlined = fl.inlined
    if fl.inlined:
        new = _tidy_names(new)
        new._inlined = fl.inlined
    return new


def _tidy_names(fn):
    """After helper expansion: 'x = __hK_ret' (the only use of that result) makes the result variable x itself, and a renamed helper local
    '__hK_name' gets its own name back when nothing else in the function is called 'name' -- the body then reads as it did before the
    helper was extracted."""
    import re
    fn = copy.deepcopy(split_unpacking(fn))
    # 0. a helper local whose only use is being copied into a field (self.f = __hK_x) *is* that field
    loads = {}
    for n in ast.walk(fn):
        if isinstance(n, ast.Name) and n.id.startswith('__h') and isinstance(n.ctx, ast.Load):
            loads.setdefault(n.id, []).append(n)
    fwd, drop0 = {}, set()
    for st in ast.walk(fn):
        if isinstance(st, ast.Assign) and len(st.targets) == 1 and isinstance(st.targets[0], ast.Attribute) and isinstance(st.value, ast.Name) \
                and st.value.id in loads and len(loads[st.value.id]) == 1 and dotted(st.targets[0]) and dotted(st.targets[0]).startswith('self.'):
            fwd[st.value.id] = st.targets[0]
            drop0.add(id(st))
    if fwd:
        class F(ast.NodeTransformer):
            def visit_Assign(self, n):
                self.generic_visit(n)
                if id(n) in drop0:
                    return None
                if len(n.targets) == 1 and isinstance(n.targets[0], ast.Name) and n.targets[0].id in fwd:
                    t = copy.deepcopy(fwd[n.targets[0].id])
                    t.ctx = ast.Store()
                    return ast.copy_location(ast.Assign(targets=[t], value=n.value), n)
                return n
        fn = F().visit(fn)
        for b in ast.walk(fn):
            for f_ in ('body', 'orelse', 'finalbody'):
                v_ = getattr(b, f_, None)
                if isinstance(v_, list) and not v_ and f_ == 'body' and not isinstance(b, ast.Module):
                    setattr(b, f_, [ast.Pass()])
        ast.fix_missing_locations(fn)
    # 1. result variables
    uses = {}
    for n in ast.walk(fn):
        if isinstance(n, ast.Name) and re.match(r'^__h\d+_ret$', n.id):
            uses.setdefault(n.id, []).append(n)
    ren = {}
    drop = set()
    for st in ast.walk(fn):
        if isinstance(st, ast.Assign) and len(st.targets) == 1 and isinstance(st.targets[0], ast.Name) and isinstance(st.value, ast.Name) \
                and st.value.id in uses and sum(1 for u in uses[st.value.id] if isinstance(u.ctx, ast.Load)) == 1:
            tgt = st.targets[0].id
            # the target must not be read between the helper's first statement and this copy: approximated by "not assigned elsewhere"
            decl = {id(d.target) for d in ast.walk(fn) if isinstance(d, ast.AnnAssign) and d.value is None}      # bare 'cdef int x' declarations
            others = [x for x in ast.walk(fn) if isinstance(x, ast.Name) and x.id == tgt and isinstance(x.ctx, ast.Store) and x is not st.targets[0]
                      and id(x) not in decl]
            if not others:
                ren[st.value.id] = tgt
                drop.add(id(st))
    # the artificial initialisation '__hK_ret = None' goes with it
    for st in ast.walk(fn):
        if isinstance(st, ast.Assign) and len(st.targets) == 1 and isinstance(st.targets[0], ast.Name) and st.targets[0].id in ren \
                and isinstance(st.value, ast.Constant) and st.value.value is None:
            drop.add(id(st))
    # 2. helper locals
    bound = {a.arg for a in fn.args.posonlyargs + fn.args.args + fn.args.kwonlyargs}
    for n in ast.walk(fn):
        if isinstance(n, ast.Name) and not n.id.startswith('__h'):
            bound.add(n.id)
    cand = {}
    for n in ast.walk(fn):
        if isinstance(n, ast.Name):
            m = re.match(r'^__h\d+_(?!ret$|once$)(\w+)$', n.id)
            if m and n.id not in ren:
                cand.setdefault(m.group(1), set()).add(n.id)
    for plain, hs in cand.items():
        if len(hs) == 1 and plain not in bound and plain not in ren.values():
            ren[next(iter(hs))] = plain
    if not ren:
        return fn

    def strip(stmts):
        out = []
        for st in stmts:
            if id(st) in drop:
                continue
            for f in ('body', 'orelse', 'finalbody'):
                b = getattr(st, f, None)
                if isinstance(b, list) and b and isinstance(b[0], ast.stmt):
                    setattr(st, f, strip(b) or [ast.copy_location(ast.Pass(), st)])
            if isinstance(st, ast.Try):
                for h in st.handlers:
                    h.body = strip(h.body) or [ast.copy_location(ast.Pass(), st)]
            out.append(st)
        return out
    fn.body = strip(fn.body)
    fn = _Rename(ren).visit(fn)
    ast.fix_missing_locations(fn)
    return fn


# ----------------------------------------------------------------------------------------------- propagate
def split_unpacking(fn):
    """Copy of fn in which 'a, b, c = seq' (seq a plain name / attribute / subscript of one) reads 'a = seq[0]; b = seq[1]; c = seq[2]' and
    'a, b = x, y' (no target among the operands) reads 'a = x; b = y': the same values, in a form the single-definition machinery follows."""
    if not any(isinstance(st, ast.Assign) and len(st.targets) == 1 and isinstance(st.targets[0], (ast.Tuple, ast.List)) for st in ast.walk(fn)):
        return fn
    new = copy.deepcopy(fn)

    def simple(v):
        while isinstance(v, (ast.Attribute, ast.Subscript)):
            if isinstance(v, ast.Subscript) and not isinstance(v.slice, (ast.Constant, ast.Name)):
                return False
            v = v.value
        return isinstance(v, ast.Name)

    def block(stmts):
        out = []
        for st in stmts:
            for f in ('body', 'orelse', 'finalbody'):
                b = getattr(st, f, None)
                if isinstance(b, list) and b and isinstance(b[0], ast.stmt):
                    setattr(st, f, block(b))
            if isinstance(st, ast.Try):
                for h in st.handlers:
                    h.body = block(h.body)
            if isinstance(st, ast.Assign) and len(st.targets) == 1 and isinstance(st.targets[0], (ast.Tuple, ast.List)) \
                    and all(isinstance(t, ast.Attribute) for t in st.targets[0].elts) and isinstance(st.value, (ast.Tuple, ast.List)) \
                    and len(st.value.elts) == len(st.targets[0].elts) \
                    and not ({norm(t) for t in st.targets[0].elts} & {norm(x) for v_ in st.value.elts for x in ast.walk(v_) if isinstance(x, ast.Attribute)}):
                # self.a, self.b = x, y (no field among the operands)
                for t, e in zip(st.targets[0].elts, st.value.elts):
                    out.append(ast.copy_location(ast.Assign(targets=[copy.deepcopy(t)], value=e), st))
                continue
            if isinstance(st, ast.Assign) and len(st.targets) == 1 and isinstance(st.targets[0], (ast.Tuple, ast.List)) \
                    and all(isinstance(t, ast.Name) for t in st.targets[0].elts):
                tg = st.targets[0].elts
                names = {t.id for t in tg}
                v = st.value
                if simple(v) and not ({x.id for x in ast.walk(v) if isinstance(x, ast.Name)} & names):
                    for i, t in enumerate(tg):
                        a = ast.Assign(targets=[ast.Name(id=t.id, ctx=ast.Store())],
                                       value=ast.Subscript(value=copy.deepcopy(v), slice=ast.Constant(value=i), ctx=ast.Load()))
                        out.append(ast.copy_location(a, st))
                    continue
                if isinstance(v, (ast.Tuple, ast.List)) and len(v.elts) == len(tg) \
                        and not ({x.id for x in ast.walk(v) if isinstance(x, ast.Name)} & names):
                    for t, e in zip(tg, v.elts):
                        a = ast.Assign(targets=[ast.Name(id=t.id, ctx=ast.Store())], value=e)
                        out.append(ast.copy_location(a, st))
                    continue
            out.append(st)
        return out
    new.body = block(new.body)
    ast.fix_missing_locations(new)
    return new


def propagate(fn, max_size=400):
    """New FunctionDef in which single-definition locals are replaced by their defining expressions where the definition
    dominates the use (same block, earlier statement) and no operand of the definition is reassigned anywhere in fn."""
    fn = split_unpacking(fn)
    counts = _assigned_names(fn)
    params = {a.arg for a in fn.args.posonlyargs + fn.args.args + fn.args.kwonlyargs}
    # names bound only as loop targets are constant within one iteration: a definition inside the loop body that uses them
    # is only ever propagated to later statements of that same body (block scoping below)
    loop_only = {}
    for n in ast.walk(fn):
        if isinstance(n, ast.For):
            for x in ast.walk(n.target):
                if isinstance(x, ast.Name):
                    loop_only[x.id] = loop_only.get(x.id, 0) + 1
    loop_only = {k for k, v in loop_only.items() if counts.get(k) == v}
    self_written = set()
    for n in ast.walk(fn):
        if isinstance(n, ast.Attribute) and isinstance(n.ctx, ast.Store):
            d = dotted(n)
            if d:
                self_written.add(d)
        if isinstance(n, ast.Subscript) and isinstance(n.ctx, ast.Store):
            d = dotted(n.value)
            if d:
                self_written.add(d)
    # names mutated through method calls or subscripts stores count as reassigned
    mutated = {d.split('.')[0] for d in self_written}
    for n in ast.walk(fn):
        # a local that receives method calls may be mutated by them (list.append, dict.update, ...)
        if isinstance(n, ast.Call) and isinstance(n.func, ast.Attribute) and isinstance(n.func.value, ast.Name):
            mutated.add(n.func.value.id)

    def ok_value(v):
        if len(ast.dump(v)) > max_size * 12:
            return False
        if isinstance(v, (ast.List, ast.Dict, ast.Set, ast.ListComp, ast.DictComp, ast.SetComp, ast.GeneratorExp)):
            return False
        bound = {t.id for c in ast.walk(v) if isinstance(c, ast.comprehension) for t in ast.walk(c.target) if isinstance(t, ast.Name)}
        for x in ast.walk(v):
            if isinstance(x, ast.Name):
                if x.id in bound:
                    continue
                if x.id in params:
                    if counts.get(x.id, 0) > 0:
                        return False
                elif x.id in loop_only:
                    continue
                elif counts.get(x.id, 0) > 1:
                    return False
            if isinstance(x, ast.Attribute):
                d = dotted(x)
                if d and any(d == w or d.startswith(w + '.') or w.startswith(d + '.') for w in self_written):
                    return False
            if isinstance(x, (ast.Lambda, ast.Yield, ast.Await, ast.NamedExpr)):
                return False
        return True

    new = copy.deepcopy(fn)

    def block(stmts, env):
        env = dict(env)
        out = []
        for st in stmts:
            if isinstance(st, (ast.FunctionDef, ast.ClassDef)):
                out.append(st)
                continue
            # substitute uses in the statement's own expressions (not in nested blocks)
            st = _subst_stmt(st, env)
            for f in ('body', 'orelse', 'finalbody'):
                b = getattr(st, f, None)
                if isinstance(b, list) and b and isinstance(b[0], ast.stmt):
                    setattr(st, f, block(b, env))
            if isinstance(st, ast.Try):
                for h in st.handlers:
                    h.body = block(h.body, env)
            # a local that merely names a field of self (bf = self._brems_func) is the same object: writing bf.x writes self._brems_func.x,
            # so such an alias is replaced even though it is written through
            def alias(v):
                d = dotted(v)
                return bool(d) and d.startswith('self.') and isinstance(v, ast.Attribute)
            if isinstance(st, ast.Assign) and len(st.targets) == 1 and isinstance(st.targets[0], ast.Name):
                n = st.targets[0].id
                if counts.get(n) == 1 and n not in params and (n not in mutated or alias(st.value)) and ok_value(st.value):
                    env[n] = st.value
            elif isinstance(st, ast.AnnAssign) and isinstance(st.target, ast.Name) and st.value is not None:
                n = st.target.id
                if counts.get(n) == 1 and n not in params and (n not in mutated or alias(st.value)) and ok_value(st.value):
                    env[n] = st.value
            out.append(st)
        return out
    new.body = block(new.body, {})
    ast.fix_missing_locations(new)
    return new


def _subst_stmt(st, env):
    if not env:
        return st
    sub = _Subst(env)
    for f, v in list(ast.iter_fields(st)):
        if f in ('body', 'orelse', 'finalbody', 'handlers'):
            continue
        if isinstance(v, list):
            setattr(st, f, [sub.visit(c) if isinstance(c, ast.AST) else c for c in v])
        elif isinstance(v, ast.AST):
            setattr(st, f, sub.visit(v))
    return st


# ----------------------------------------------------------------------------------------------- lookups
def class_lookup(prog, ci, public=False):
    """lookup for calls `self._m(...)`, `Cls._m(...)` (static helpers) and module-level `_f(...)` seen from class ci."""
    def lookup(c):
        f = c.func
        if isinstance(f, ast.Attribute) and isinstance(f.value, ast.Name) and (f.value.id in ('self', 'cls') or f.value.id == ci.name):
            if not (f.attr.startswith('_') or public) or f.attr.startswith('__'):
                return None
            k, m = prog.find_method(ci, f.attr)
            if m is None:
                return None
            static = any(dotted(d) == 'staticmethod' for d in m.decorator_list)
            return m, (not static), f.attr
        if isinstance(f, ast.Name) and f.id.startswith('_') and f.id in ci.mod.functions:
            return ci.mod.functions[f.id], False, f.id
        if isinstance(f, ast.Name) and f.id.startswith('_'):
            g = imported_function(prog, ci.mod, f.id)
            if g is not None:
                return g, False, f.id
        return None
    return lookup


def imported_function(prog, mi, name):
    """a private helper `from .sibling import _helper` used in module mi: the FunctionDef in the sibling module (loaded on demand)"""
    tgt = getattr(mi, 'imports', {}).get(name)
    if not tgt or '.' not in tgt:
        return None
    modname, simple = tgt.rsplit('.', 1)
    m = prog.modules.get(modname)
    if m is None:
        import os
        for ext in ('.py', '.pyx'):
            rel = modname.replace('.', os.sep) + ext
            if os.path.exists(os.path.join(prog.root, rel)):
                try:
                    m = prog.load(rel)
                except Exception:
                    m = None
                break
    if m is None:
        return None
    return m.functions.get(simple)


def module_lookup(mi, public=False, prog=None):
    def lookup(c):
        f = c.func
        if isinstance(f, ast.Name) and (f.id.startswith('_') or public) and f.id in mi.functions:
            return mi.functions[f.id], False, f.id
        if prog is not None and isinstance(f, ast.Name) and f.id.startswith('_'):
            g = imported_function(prog, mi, f.id)
            if g is not None:
                return g, False, f.id
        return None
    return lookup


def append_helper_bodies(fn, lookup, depth=2):
    """Copy of fn whose body is followed by the bodies of the private helpers it still calls (those flatten() could not expand in place, e.g.
    because they return from inside a loop), parameters renamed to the plain-name arguments of the call.  For rules that look for the
    presence of a construct anywhere in what the method executes, not for its position."""
    new = copy.deepcopy(fn)
    seen = set()
    work = [(new, depth)]
    extra = []
    while work:
        f, d = work.pop()
        if d <= 0:
            continue
        for c in [c for c in ast.walk(f) if isinstance(c, ast.Call)]:
            r = lookup(c)
            if r is None:
                continue
            callee, skip_self, name = r
            if name in seen or callee is fn:
                continue
            seen.add(name)
            b = _bind(c, callee, skip_self)
            ren = {p: a.id for p, a in (b or {}).items() if isinstance(a, ast.Name)}
            body = [_Rename(ren).visit(copy.deepcopy(st)) for st in callee.body
                    if not (isinstance(st, ast.Expr) and isinstance(st.value, ast.Constant))]
            holder = ast.FunctionDef(name=name, args=callee.args, body=body, decorator_list=[], lineno=callee.lineno)
            extra.extend(body)
            work.append((holder, d - 1))
    new.body = list(new.body) + extra
    ast.fix_missing_locations(new)
    return new


def desugar_pairwise(fn):
    """Copy of fn in which 'for [i,] (lo, hi) in [enumerate(]zip(E[:-1], E[1:])[)]' reads 'for i in range(len(E) - 1)' with lo -> E[i] and
    hi -> E[i + 1] in the body: consecutive pairs of one array, spelled the way the index form spells them."""
    new = copy.deepcopy(fn)
    k = [0]

    def pairs(it):
        if isinstance(it, ast.Call) and dotted(it.func) == 'zip' and len(it.args) == 2 and all(isinstance(a, ast.Subscript) and isinstance(a.slice, ast.Slice)
                                                                                              for a in it.args):
            a, b = it.args
            if norm(a.value) == norm(b.value) and a.slice.lower is None and norm(a.slice.upper or ast.Constant(value=0)) == '-1' and a.slice.step is None \
                    and norm(b.slice.lower or ast.Constant(value=0)) == '1' and b.slice.upper is None and b.slice.step is None:
                return a.value
        return None

    for lp in [l for l in ast.walk(new) if isinstance(l, ast.For)]:
        it, tg = lp.iter, lp.target
        idx = None
        if isinstance(it, ast.Call) and dotted(it.func) == 'enumerate' and len(it.args) == 1 and isinstance(tg, ast.Tuple) and len(tg.elts) == 2 \
                and isinstance(tg.elts[0], ast.Name):
            idx, it, tg = tg.elts[0].id, it.args[0], tg.elts[1]
        base = pairs(it)
        if base is None or not (isinstance(tg, ast.Tuple) and len(tg.elts) == 2 and all(isinstance(e, ast.Name) for e in tg.elts)):
            continue
        if idx is None:
            k[0] += 1
            idx = '__p%d_i' % k[0]
        lo, hi = tg.elts[0].id, tg.elts[1].id
        sub = {lo: ast.Subscript(value=copy.deepcopy(base), slice=ast.Name(id=idx, ctx=ast.Load()), ctx=ast.Load()),
               hi: ast.Subscript(value=copy.deepcopy(base), slice=ast.BinOp(left=ast.Name(id=idx, ctx=ast.Load()), op=ast.Add(), right=ast.Constant(value=1)),
                                 ctx=ast.Load())}
        if any(isinstance(x, ast.Name) and isinstance(x.ctx, ast.Store) and x.id in (lo, hi) for b_ in lp.body for x in ast.walk(b_)):
            continue
        lp.body = [_Subst(sub).visit(st) for st in lp.body]
        lp.target = ast.Name(id=idx, ctx=ast.Store())
        lp.iter = ast.Call(func=ast.Name(id='range', ctx=ast.Load()),
                           args=[ast.BinOp(left=ast.Call(func=ast.Name(id='len', ctx=ast.Load()), args=[copy.deepcopy(base)], keywords=[]),
                                           op=ast.Sub(), right=ast.Constant(value=1))], keywords=[])
    ast.fix_missing_locations(new)
    return new


def inline_trivial_properties(fn, prog, ci):
    """Copy of fn in which a read of `self.p`, p a property over the MRO whose getter is just `return self._f`, reads `self._f`."""
    triv = {}
    for c in prog.mro(ci):
        for pn, g in c.getters.items():
            if pn in triv:
                continue
            body = [st for st in g.body if not (isinstance(st, ast.Expr) and isinstance(st.value, ast.Constant))]
            if len(body) == 1 and isinstance(body[0], ast.Return) and isinstance(body[0].value, ast.Attribute) \
                    and isinstance(body[0].value.value, ast.Name) and body[0].value.value.id == 'self':
                triv[pn] = body[0].value.attr
            else:
                triv[pn] = None
    triv = {k: v for k, v in triv.items() if v}
    if not triv:
        return fn

    class T(ast.NodeTransformer):
        def visit_Attribute(self, n):
            self.generic_visit(n)
            if isinstance(n.ctx, ast.Load) and isinstance(n.value, ast.Name) and n.value.id == 'self' and n.attr in triv:
                return ast.copy_location(ast.Attribute(value=n.value, attr=triv[n.attr], ctx=ast.Load()), n)
            return n
    new = T().visit(copy.deepcopy(fn))
    ast.fix_missing_locations(new)
    return new


def prep(fn, lookup=None, keep=(), depth=3):
    """flatten then propagate."""
    g = flatten(fn, lookup, depth, keep) if lookup is not None else fn
    p = fold_constant_getattr(propagate(g))
    p._inlined = getattr(g, '_inlined', [])
    return p


def fold_constant_getattr(fn):
    """getattr(E, 'name') with a literal name is E.name; setattr(E, 'name', v) as a statement is E.name = v (in place)."""
    import re as _re

    class F(ast.NodeTransformer):
        def visit_Call(self, n):
            self.generic_visit(n)
            if isinstance(n.func, ast.Name) and n.func.id == 'getattr' and len(n.args) == 2 and not n.keywords \
                    and isinstance(n.args[1], ast.Constant) and isinstance(n.args[1].value, str) and _re.match(r'^[A-Za-z_]\w*$', n.args[1].value):
                return ast.copy_location(ast.Attribute(value=n.args[0], attr=n.args[1].value, ctx=ast.Load()), n)
            return n

        def visit_Expr(self, n):
            self.generic_visit(n)
            c = n.value
            if isinstance(c, ast.Call) and isinstance(c.func, ast.Name) and c.func.id == 'setattr' and len(c.args) == 3 and not c.keywords \
                    and isinstance(c.args[1], ast.Constant) and isinstance(c.args[1].value, str) and _re.match(r'^[A-Za-z_]\w*$', c.args[1].value):
                return ast.copy_location(ast.Assign(targets=[ast.Attribute(value=c.args[0], attr=c.args[1].value, ctx=ast.Store())], value=c.args[2]), n)
            return n
    F().visit(fn)
    ast.fix_missing_locations(fn)
    return fn


def resolver(fn, stop=()):
    """r(expr) -> copy of expr with single-definition locals replaced (recursively) by their defining expressions.
    Conditions as in propagate() except dominance, which is approximated by source order (definition line before use)."""
    orig = fn
    fn = split_unpacking(fn)
    # execution order by position in the tree, not by line number: statements of an expanded helper keep the helper's line numbers
    for f_ in ((fn,) if fn is orig else (orig, fn)):
        k_ = [0]

        def _number(n_):
            n_._pos = k_[0]
            k_[0] += 1
            for c_ in ast.iter_child_nodes(n_):
                _number(c_)
        _number(f_)
    counts = _assigned_names(fn)
    params = {a.arg for a in fn.args.posonlyargs + fn.args.args + fn.args.kwonlyargs}
    defs = {}
    for st in ast.walk(fn):
        if isinstance(st, ast.Assign) and len(st.targets) == 1 and isinstance(st.targets[0], ast.Name):
            defs.setdefault(st.targets[0].id, []).append(st)
        elif isinstance(st, ast.AnnAssign) and isinstance(st.target, ast.Name) and st.value is not None:
            defs.setdefault(st.target.id, []).append(st)
    mutated = set()
    for n in ast.walk(fn):
        if isinstance(n, ast.Call) and isinstance(n.func, ast.Attribute) and isinstance(n.func.value, ast.Name) \
                and n.func.attr in ('append', 'extend', 'pop', 'update', 'clear', 'insert', 'remove', 'sort', 'add', 'fill'):
            mutated.add(n.func.value.id)
        if isinstance(n, ast.Subscript) and isinstance(n.ctx, ast.Store) and isinstance(n.value, ast.Name):
            mutated.add(n.value.id)

    def single(name):
        if name in params or name in stop or name in mutated or counts.get(name) != 1 or len(defs.get(name, [])) != 1:
            return None
        v = defs[name][0].value
        if isinstance(v, (ast.List, ast.Dict, ast.Set, ast.ListComp, ast.DictComp, ast.SetComp, ast.GeneratorExp)):
            return None
        return defs[name][0]

    top = {id(st) for st in fn.body}

    def latest(name, lineno):
        """several definitions, all of them top-level statements of the function (straight-line code): the one in force at `lineno`"""
        ds = defs.get(name, [])
        need = 1 if name in params else 2          # a parameter rebound once (x = np.array(x)) has the argument as its first value
        if name in stop or name in mutated or len(ds) < need or counts.get(name) != len(ds) or not all(id(d) in top for d in ds):
            return None
        before = [d for d in ds if d._pos < lineno]
        if not before:
            return None
        d = max(before, key=lambda x: x._pos)
        if isinstance(d.value, (ast.List, ast.Dict, ast.Set, ast.ListComp, ast.DictComp, ast.SetComp, ast.GeneratorExp)):
            return None
        return d

    def r(expr, depth=8, at=None):
        if depth <= 0 or expr is None:
            return expr

        class T(ast.NodeTransformer):
            def visit_Name(self, n):
                if isinstance(n.ctx, ast.Load):
                    line = at if at is not None else getattr(n, '_pos', 10 ** 9)
                    d = single(n.id)
                    if d is not None and d._pos <= line:
                        return r(copy.deepcopy(d.value), depth - 1, at=d._pos)
                    d = latest(n.id, line)
                    if d is not None:
                        # the definition may refer to the previous value of the same name: resolve it as of its own position
                        return r(copy.deepcopy(d.value), depth - 1, at=d._pos)
                return n
        return T().visit(copy.deepcopy(expr))
    r.single = single
    return r


def desugar_reductions(fn):
    """Copy of fn in which an accumulator loop

        X = INIT;  for v in IT:  X = min(X, E(v))        (or max; either argument order)

    reads  X = min(E(v) for v in IT)  when INIT is the identity of the reduction (inf for min; -inf, or 0 for quantities that are
    positive, for max), and a loop statement that merely overwrites  X = E(v)  reads  X = __last__(E(v) for v in IT): the value the
    *last* element gives.  Only loops whose whole body consists of such statements over distinct names are rewritten."""
    new = copy.deepcopy(fn)

    def is_inf(e, neg=False):
        t = norm(e).replace(' ', '')
        pos = t in ('np.inf', 'numpy.inf', 'math.inf', 'inf', "float('inf')", 'INFINITY', 'np.Inf')
        ng = t in ('-np.inf', '-numpy.inf', '-math.inf', '-inf', "float('-inf')", "-float('inf')", '-INFINITY')
        return ng if neg else pos

    def rewrite(block):
        out = []
        for st in block:
            for f in ('body', 'orelse', 'finalbody'):
                b = getattr(st, f, None)
                if isinstance(b, list) and b and isinstance(b[0], ast.stmt):
                    setattr(st, f, rewrite(b))
            if isinstance(st, ast.For) and isinstance(st.target, ast.Name) and not st.orelse:
                v = st.target.id
                plan, ok = [], True
                names = set()
                for q in st.body:
                    if not (isinstance(q, ast.Assign) and len(q.targets) == 1 and isinstance(q.targets[0], ast.Name)):
                        ok = False
                        break
                    x = q.targets[0].id
                    if x in names or x == v:
                        ok = False
                        break
                    names.add(x)
                    val = q.value
                    kind, elem = 'last', val
                    if isinstance(val, ast.Call) and dotted(val.func) in ('min', 'max', 'fmin', 'fmax') and len(val.args) == 2 and not val.keywords:
                        a, b = val.args
                        if isinstance(a, ast.Name) and a.id == x:
                            kind, elem = dotted(val.func)[-3:], b
                        elif isinstance(b, ast.Name) and b.id == x:
                            kind, elem = dotted(val.func)[-3:], a
                    if any(isinstance(n_, ast.Name) and n_.id in names for n_ in ast.walk(elem)):
                        ok = False                      # depends on an accumulator of the same loop
                        break
                    plan.append((x, kind, elem, q))
                if ok and plan:
                    # the initial values: the last top-level assignment to each accumulator before the loop, in this block
                    inits = {}
                    for prev in out:
                        if isinstance(prev, ast.Assign) and len(prev.targets) == 1 and isinstance(prev.targets[0], ast.Name):
                            inits[prev.targets[0].id] = prev
                    good = True
                    for x, kind, elem, q in plan:
                        ini = inits.get(x)
                        if kind == 'min' and not (ini is not None and is_inf(ini.value)):
                            good = False
                        if kind == 'max' and not (ini is not None and (is_inf(ini.value, neg=True) or norm(ini.value) in ('0', '0.0'))):
                            good = False
                    if good:
                        for x, kind, elem, q in plan:
                            gen = ast.GeneratorExp(elt=elem, generators=[ast.comprehension(target=ast.Name(id=v, ctx=ast.Store()), iter=st.iter, ifs=[], is_async=0)])
                            call = ast.Call(func=ast.Name(id=kind if kind != 'last' else '__last__', ctx=ast.Load()), args=[gen], keywords=[])
                            out = [o for o in out if o is not inits.get(x)]
                            out.append(ast.copy_location(ast.Assign(targets=[ast.Name(id=x, ctx=ast.Store())], value=call), q))
                        continue
            out.append(st)
        return out
    new.body = rewrite(new.body)
    ast.fix_missing_locations(new)
    return new
