"""Program index: modules (Python via ast, Cython via cy2ast), classes, MRO, fields, methods."""
import ast
import os

from .report import AnalysisError, REPO


def dotted(n):
    """a.b.c -> 'a.b.c' for pure Name/Attribute chains, else None."""
    parts = []
    while isinstance(n, ast.Attribute):
        parts.append(n.attr)
        n = n.value
    if isinstance(n, ast.Name):
        parts.append(n.id)
        return '.'.join(reversed(parts))
    return None


def call_name(n):
    return dotted(n.func) if isinstance(n, ast.Call) else None


def norm(n):
    """Normalised text of a node (position independent)."""
    if n is None:
        return 'None'
    if isinstance(n, list):
        return '; '.join(norm(x) for x in n)
    try:
        return ast.unparse(n)
    except Exception:
        return ast.dump(n)


def const_fold(n):
    """Fold a constant arithmetic expression to int/float, else None."""
    try:
        if isinstance(n, ast.Constant) and isinstance(n.value, (int, float)) and not isinstance(n.value, bool):
            return n.value
        if isinstance(n, ast.UnaryOp) and isinstance(n.op, (ast.USub, ast.UAdd)):
            v = const_fold(n.operand)
            return None if v is None else (-v if isinstance(n.op, ast.USub) else v)
        if isinstance(n, ast.BinOp):
            a, b = const_fold(n.left), const_fold(n.right)
            if a is None or b is None:
                return None
            if isinstance(n.op, ast.Add):
                return a + b
            if isinstance(n.op, ast.Sub):
                return a - b
            if isinstance(n.op, ast.Mult):
                return a * b
            if isinstance(n.op, ast.Div):
                return a / b
            if isinstance(n.op, ast.Pow):
                return a ** b
    except Exception:
        return None
    return None


def _lower_worker(args):
    root, relpath = args
    import pickle
    try:
        from . import cy2ast
        return pickle.dumps(cy2ast.lower_file(root, relpath))
    except Exception:
        return None


def _drop_pass(tree):
    """'pass' next to other statements of a block does nothing: removed, so that no analysis has to know it"""
    for n in ast.walk(tree):
        for f in ('body', 'orelse', 'finalbody'):
            b = getattr(n, f, None)
            if isinstance(b, list) and len(b) > 1 and any(isinstance(x, ast.Pass) for x in b) and any(not isinstance(x, ast.Pass) for x in b):
                setattr(n, f, [x for x in b if not isinstance(x, ast.Pass)])


class _FnTable(dict):
    """module-level functions by name; a name imported from another module of the package resolves to the definition there
    (a helper moved to a sibling module and imported back is still 'the function of that name in this module')"""
    prog = mi = None

    def _resolve(self, name):
        if self.prog is None or not isinstance(name, str):
            return None
        tgt = self.mi.imports.get(name)
        if not tgt or not tgt.startswith('cherab.') or '.' not in tgt:
            return None
        busy = self.prog.__dict__.setdefault('_fn_busy', set())
        if (self.mi.name, name) in busy:
            return None
        busy.add((self.mi.name, name))
        try:
            modname, simple = tgt.rsplit('.', 1)
            m = self.prog.modules.get(modname)
            if self.mi.relpath.endswith('.pxd') or (m is not None and dict.get(m.functions, simple) is None):
                # an inline function of a declaration file
                pm = self.prog.modules.get(modname + '#pxd')
                if pm is None:
                    rel = modname.replace('.', os.sep) + '.pxd'
                    if os.path.exists(os.path.join(self.prog.root, rel)):
                        try:
                            pm = self.prog.load(rel)
                        except Exception:
                            pm = None
                if pm is not None and isinstance(pm.functions.get(simple), ast.FunctionDef):
                    return pm.functions.get(simple)
            if m is None:
                for ext in ('.py', '.pyx'):
                    rel = modname.replace('.', os.sep) + ext
                    if os.path.exists(os.path.join(self.prog.root, rel)):
                        try:
                            m = self.prog.load(rel)
                        except Exception:
                            m = None
                        break
            if m is None:
                return None
            f = m.functions.get(simple)
            return f if isinstance(f, ast.FunctionDef) else None
        finally:
            busy.discard((self.mi.name, name))

    def get(self, name, default=None):
        if dict.__contains__(self, name):
            return dict.__getitem__(self, name)
        f = self._resolve(name)
        return default if f is None else f

    def __getitem__(self, name):
        if dict.__contains__(self, name):
            return dict.__getitem__(self, name)
        f = self._resolve(name)
        if f is None:
            raise KeyError(name)
        return f

    def __contains__(self, name):
        return dict.__contains__(self, name) or self._resolve(name) is not None


class ModuleInfo:
    def __init__(self, relpath, tree, name):
        self.relpath = relpath
        self.tree = tree
        self.name = name
        self.is_cython = relpath.endswith(('.pyx', '.pxd'))
        self.imports = {}     # local name -> qualified dotted target
        self.star_imports = []
        self.functions = _FnTable()
        self.classes = {}
        self.assigns = {}     # top-level NAME = expr
        pkg = name.split('.')
        is_pkg = os.path.basename(relpath).startswith('__init__.')
        for st in tree.body:
            if isinstance(st, ast.ImportFrom):
                base = pkg if is_pkg else pkg[:-1]
                if st.level:
                    base = base[:len(base) - (st.level - 1)] if st.level > 1 else base
                    mod = '.'.join(base + ([st.module] if st.module else []))
                else:
                    mod = st.module or ''
                for a in st.names:
                    if a.name == '*':
                        self.star_imports.append(mod)
                    else:
                        self.imports[a.asname or a.name] = mod + '.' + a.name
            elif isinstance(st, ast.Import):
                for a in st.names:
                    if a.asname:
                        self.imports[a.asname] = a.name
                    else:
                        self.imports[a.name.split('.')[0]] = a.name.split('.')[0]
            elif isinstance(st, ast.FunctionDef):
                self.functions[st.name] = st
            elif isinstance(st, ast.ClassDef):
                self.classes[st.name] = st
            elif isinstance(st, ast.Assign) and len(st.targets) == 1 and isinstance(st.targets[0], ast.Name):
                self.assigns[st.targets[0].id] = st.value
            elif isinstance(st, ast.AnnAssign) and isinstance(st.target, ast.Name) and st.value is not None:
                self.assigns[st.target.id] = st.value


class ClassInfo:
    def __init__(self, qual, mod, node):
        self.qual = qual
        self.name = node.name
        self.mod = mod
        self.node = node
        self.pxd_node = None
        self.base_exprs = [dotted(b) or norm(b) for b in node.bases]
        self.bases = []          # resolved ClassInfo or str
        self.methods = {}        # name -> FunctionDef (non-property)
        self.getters = {}
        self.setters = {}
        self.fields = {}         # name -> (type, visibility)
        self.decl_kinds = {}     # method name -> 'cdef'/'cpdef' from pxd
        self._scan(node, False)

    def _scan(self, node, is_pxd):
        for st in node.body:
            if isinstance(st, ast.FunctionDef):
                decos = [dotted(d) or norm(d) for d in st.decorator_list]
                if is_pxd:
                    self.decl_kinds[st.name] = getattr(st, 'cy_kind', 'def')
                    continue
                if 'property' in decos:
                    self.getters[st.name] = st
                elif any(d.endswith('.setter') for d in decos):
                    target = [d for d in decos if d.endswith('.setter')][0][:-7]
                    st.setter_target = target
                    # keyed by the *decorator target*: that is the attribute Python binds
                    self.setters.setdefault(target, st)
                    st.is_setter = True
                else:
                    self.methods[st.name] = st
                st.owner = self
            elif isinstance(st, ast.AnnAssign) and isinstance(st.target, ast.Name):
                t = getattr(st, 'cy_type', None) or norm(st.annotation)
                self.fields[st.target.id] = (t, getattr(st, 'cy_visibility', 'python'))

    def method_kind(self, name):
        """'def' | 'cdef' | 'cpdef' for a method defined in this class (pxd declaration wins)."""
        if name in self.decl_kinds:
            return self.decl_kinds[name]
        m = self.methods.get(name)
        return getattr(m, 'cy_kind', 'def') if m is not None else None

    def __repr__(self):
        return '<class %s>' % self.qual


class Program:
    def __init__(self, root=None):
        self.root = root or REPO
        self.modules = {}     # dotted name -> ModuleInfo (pyx/py) ; pxd under name + '#pxd'
        self.classes = {}     # qual -> ClassInfo
        self.by_simple = {}
        self._loaded = set()
        self._pre = {}

    # ------------------------------------------------------------------ loading
    def relpaths(self, subdir='cherab', exts=('.py', '.pyx', '.pxd'), skip_tests=True):
        out = []
        base = os.path.join(self.root, subdir)
        for r, d, f in os.walk(base):
            if skip_tests and (os.sep + 'tests' in r or r.endswith('tests')):
                continue
            for x in sorted(f):
                if x.endswith(exts):
                    out.append(os.path.relpath(os.path.join(r, x), self.root))
        return sorted(out)

    def load(self, relpath, required=True):
        if relpath in self._loaded:
            return self.modules.get(self._key(relpath))
        full = os.path.join(self.root, relpath)
        if not os.path.exists(full):
            if required:
                raise AnalysisError('anchored source file vanished: %s' % relpath)
            return None
        self._loaded.add(relpath)
        name = relpath.rsplit('.', 1)[0].replace(os.sep, '.')
        if name.endswith('.__init__'):
            name = name[:-9]
        try:
            if relpath.endswith('.py'):
                with open(full, encoding='utf-8') as fh:
                    tree = ast.parse(fh.read(), filename=relpath)
            elif relpath in self._pre:
                tree = self._pre.pop(relpath)
            else:
                from . import cy2ast
                tree = cy2ast.lower_file(self.root, relpath)
        except AnalysisError:
            raise
        except Exception as e:
            raise AnalysisError('front end failed on %s: %s: %s' % (relpath, type(e).__name__, e))
        _drop_pass(tree)
        try:
            from . import alpha
            alpha.record(relpath, alpha.normalise(self.root, relpath, tree))
        except AnalysisError:
            raise
        except Exception:
            pass
        for n in ast.walk(tree):
            n.relpath = relpath
        mi = ModuleInfo(relpath, tree, name)
        mi.functions.prog, mi.functions.mi = self, mi
        self.modules[self._key(relpath)] = mi
        if relpath.endswith('.pxd'):
            return mi
        for cname, cnode in mi.classes.items():
            ci = ClassInfo(name + '.' + cname, mi, cnode)
            self.classes[ci.qual] = ci
            self.by_simple.setdefault(cname, []).append(ci)
        # companion pxd
        if relpath.endswith('.pyx'):
            pxd = relpath[:-4] + '.pxd'
            pm = self.load(pxd, required=False)
            if pm is not None:
                for cname, cnode in pm.classes.items():
                    ci = self.classes.get(name + '.' + cname)
                    if ci is not None:
                        ci.pxd_node = cnode
                        ci._scan(cnode, True)
        return mi

    def _key(self, relpath):
        name = relpath.rsplit('.', 1)[0].replace(os.sep, '.')
        if name.endswith('.__init__'):
            name = name[:-9]
        return name + ('#pxd' if relpath.endswith('.pxd') else '')

    def load_all(self, subdir='cherab'):
        for p in self.relpaths(subdir):
            self.load(p)
        self.link()

    def load_many(self, relpaths):
        self._preparse(relpaths)
        for p in relpaths:
            self.load(p)
        self.link()

    def _preparse(self, relpaths):
        """Lower many Cython files in parallel (each worker returns a pickled ast)."""
        todo = []
        for p in relpaths:
            if p.endswith('.pyx'):
                todo.append(p)
                if os.path.exists(os.path.join(self.root, p[:-4] + '.pxd')):
                    todo.append(p[:-4] + '.pxd')
        todo = [p for p in todo if p not in self._loaded and p not in self._pre and os.path.exists(os.path.join(self.root, p))]
        if len(todo) < 6:
            return
        from concurrent.futures import ProcessPoolExecutor
        import pickle
        try:
            with ProcessPoolExecutor(min(16, len(todo))) as ex:
                for p, blob in zip(todo, ex.map(_lower_worker, [(self.root, p) for p in todo], chunksize=2)):
                    if blob is not None:
                        self._pre[p] = pickle.loads(blob)
        except Exception:
            self._pre.clear()

    # ------------------------------------------------------------------ linking
    def link(self):
        for ci in self.classes.values():
            ci.bases = [self.resolve_class(ci.mod, b) or b for b in ci.base_exprs]

    def resolve_class(self, mod, name):
        """Resolve a (possibly dotted) class name used in module `mod` to a ClassInfo."""
        if name is None:
            return None
        simple = name.split('.')[-1]
        if name in mod.classes:
            return self.classes.get(mod.name + '.' + name)
        tgt = mod.imports.get(name.split('.')[0])
        if tgt:
            q = tgt if '.' not in name else tgt + '.' + name.split('.', 1)[1]
            c = self._follow(q)
            if c is not None:
                return c
        # pxd imports
        pm = self.modules.get(mod.name + '#pxd')
        if pm is not None:
            tgt = pm.imports.get(name.split('.')[0])
            if tgt:
                c = self._follow(tgt if '.' not in name else tgt + '.' + name.split('.', 1)[1])
                if c is not None:
                    return c
        cands = self.by_simple.get(simple, [])
        if len(cands) == 1:
            return cands[0]
        return None

    def _follow(self, qual, depth=0):
        if qual in self.classes:
            return self.classes[qual]
        if depth > 6 or '.' not in qual:
            return None
        modname, simple = qual.rsplit('.', 1)
        for key in (modname, modname + '#pxd'):
            m = self.modules.get(key)
            if m is None:
                continue
            if simple in m.imports:
                c = self._follow(m.imports[simple], depth + 1)
                if c is not None:
                    return c
            for star in m.star_imports:
                c = self._follow(star + '.' + simple, depth + 1)
                if c is not None:
                    return c
        cands = self.by_simple.get(simple, [])
        if len(cands) == 1:
            return cands[0]
        # package re-export not loaded: prefer the unique candidate defined below the imported package
        sub = [c for c in cands if c.qual.startswith(modname + '.')]
        if len(sub) == 1:
            return sub[0]
        return None

    # ------------------------------------------------------------------ shape normalisation (sa.inline)
    def normalise_class(self, ci, keep=(), only=None, public=False, propagate=True):
        """Replace the method / setter bodies of ci by their flattened + propagated form (in this Program only).
        keep: helper names that are anchors of rules and must stay calls."""
        from .inline import prep, flatten, class_lookup
        originals = {}
        for table in (ci.methods, ci.setters, ci.getters):
            originals[id(table)] = dict(table)
        look = class_lookup(self, ci, public)
        for table in (ci.methods, ci.setters, ci.getters):
            for name, fn in list(originals[id(table)].items()):
                if only is not None and name not in only:
                    continue
                new = prep(fn, look, keep=keep) if propagate else flatten(fn, look, keep=keep)
                for a in ('owner', 'setter_target', 'is_setter', 'cy_kind', 'cy_type'):
                    if hasattr(fn, a):
                        setattr(new, a, getattr(fn, a))
                table[name] = new
        return ci

    def normalise_module(self, mi, keep=(), only=None, public=False, propagate=True):
        from .inline import prep, flatten, module_lookup
        look = module_lookup(mi, public)
        orig = dict(mi.functions)

        from .inline import imported_function

        def lookup(c):
            f = c.func
            if isinstance(f, ast.Name) and (f.id.startswith('_') or public) and f.id in orig:
                return orig[f.id], False, f.id
            if isinstance(f, ast.Name) and f.id.startswith('_'):
                g = imported_function(self, mi, f.id)       # a private helper imported from a sibling module
                if g is not None:
                    return g, False, f.id
            return None
        for name, fn in orig.items():
            if only is not None and name not in only:
                continue
            new = prep(fn, lookup, keep=keep) if propagate else flatten(fn, lookup, keep=keep)
            for a in ('cy_kind', 'cy_type'):
                if hasattr(fn, a):
                    setattr(new, a, getattr(fn, a))
            mi.functions[name] = new
        return mi

    def mro(self, ci):
        out, seen = [], set()

        def go(c):
            if isinstance(c, str) or c.qual in seen:
                return
            seen.add(c.qual)
            out.append(c)
            for b in c.bases:
                go(b)
        go(ci)
        return out

    def external_bases(self, ci):
        out = []
        for c in self.mro(ci):
            out.extend(b for b in c.bases if isinstance(b, str))
        return out

    def is_subclass(self, ci, qual_or_simple):
        for c in self.mro(ci):
            if c.qual == qual_or_simple or c.name == qual_or_simple:
                return True
        return qual_or_simple in [b.split('.')[-1] for b in self.external_bases(ci)]

    def find_method(self, ci, name):
        for c in self.mro(ci):
            if name in c.methods:
                return c, c.methods[name]
        return None, None

    def find_getter(self, ci, name):
        for c in self.mro(ci):
            if name in c.getters:
                return c, c.getters[name]
        return None, None

    def find_setter(self, ci, name):
        for c in self.mro(ci):
            if name in c.setters:
                return c, c.setters[name]
        return None, None

    def field(self, ci, name):
        for c in self.mro(ci):
            if name in c.fields:
                return c.fields[name]
        return None

    def all_fields(self, ci):
        out = {}
        for c in reversed(self.mro(ci)):
            out.update(c.fields)
        return out

    def subclasses(self, ci):
        return [c for c in self.classes.values() if c is not ci and ci in self.mro(c)]

    def cls(self, qual):
        c = self.classes.get(qual)
        if c is None:
            raise AnalysisError('anchored class vanished: %s' % qual)
        return c

    def func(self, modname, fname):
        m = self.modules.get(modname)
        if m is None or fname not in m.functions:
            raise AnalysisError('anchored function vanished: %s.%s' % (modname, fname))
        return m.functions[fname]

    def method(self, ci, name, inherited=True):
        if inherited:
            c, m = self.find_method(ci, name)
        else:
            c, m = ci, ci.methods.get(name)
        if m is None:
            raise AnalysisError('anchored method vanished: %s.%s' % (ci.qual, name))
        return m
