#!/venv/bin/python
"""Rebuild /verif/seeded/INDEX.json: run the checks against each kept seed (source-only copy, nothing built or executed) and record
which rule reports it.  usage: seed_index.py [seed ids...]"""
import json, os, re, shutil, subprocess, sys, tempfile
sys.path.insert(0, '/verif')
from sa.selftest import _copy_sources
SEEDED = '/verif/seeded'
# which other checks also cover a seed's files (a seed given for one property may break another one's rule)
EXTRA = [(r'cherab/core/(plasma|beam|laser|model|utility/notify)', 'C01'), (r'cherab/core/math/(mappers|mask|clamp|slice|transform|samplers)', 'C13'),
         (r'cherab/core/math/integrators', 'C02')]
INITIAL = json.load(open(os.path.join(SEEDED, 'INITIAL.json'))) if os.path.exists(os.path.join(SEEDED, 'INITIAL.json')) else {}


def run_check(pid, root):
    env = dict(os.environ, VERIF_REPO=root, VERIF_EVIDENCE_DIR=os.path.join(root, '_ev'))
    q = subprocess.run(['./check', pid, '--tier', 'quick'], cwd='/verif', env=env, capture_output=True, text=True)
    rules = re.findall(r': (C\d\d-[\w-]+):', q.stdout)
    return q.returncode, rules


def main():
    ids = sys.argv[1:] or sorted(d for d in os.listdir(SEEDED) if os.path.isdir(os.path.join(SEEDED, d)))
    idxp = os.path.join(SEEDED, 'INDEX.json')
    old = {e['id']: e for e in json.load(open(idxp))} if os.path.exists(idxp) else {}
    def one(sid):
        pd = os.path.join(SEEDED, sid, 'patch.diff')
        if not os.path.exists(pd):
            return None
        prop = sid.split('-')[0]
        files = [l[6:].strip() for l in open(pd) if l.startswith('+++ b/')]
        pids = [prop] + [p for rx, p in EXTRA if any(re.search(rx, f) for f in files) and p != prop]
        root = tempfile.mkdtemp(prefix='seedidx_')
        try:
            _copy_sources(root)
            p = subprocess.run(['patch', '-p1', '-s', '-i', pd], cwd=root, capture_output=True, text=True)
            if p.returncode != 0:
                print(sid, 'patch does not apply')
                return None
            checks = {}
            for pid in pids:
                rc, rules = run_check(pid, root)
                checks[pid] = rules[0] if rc == 1 and rules else None
        finally:
            shutil.rmtree(root, ignore_errors=True)
        print(sid, checks, flush=True)
        return dict(id=sid, property=prop, patch='seeded/%s/patch.diff' % sid, files=files, checks=checks,
                    detected=any(checks.values()), first_run=INITIAL.get(sid, ''))
    from concurrent.futures import ThreadPoolExecutor
    with ThreadPoolExecutor(int(os.environ.get('SEED_INDEX_JOBS', '8'))) as ex:
        for e in ex.map(one, ids):
            if e is not None:
                old[e['id']] = e
    missed = [k for k in sorted(old) if not old[k]['detected']]
    print('seeds=%d detected=%d missed=%s' % (len(old), len(old) - len(missed), missed))
    json.dump([old[k] for k in sorted(old)], open(idxp, 'w'), indent=1)


if __name__ == '__main__':
    main()
