#!/venv/bin/python
"""Run all checks against behaviour-preserving refactorings: usage refac_verify.py <outdir> [PROP ...]
For each <outdir>/<k>/patch.diff: copy the sources of /repo to a temp dir, apply the patch, run the checks with VERIF_REPO."""
import json, os, shutil, subprocess, sys, tempfile
sys.path.insert(0, '/verif')
from sa.selftest import _copy_sources
out = sys.argv[1]
props = sys.argv[2:] or [c['property_id'] for c in json.load(open('/verif/MANIFEST.json'))['checks']]
for k in sorted(os.listdir(out)):
    pd = os.path.join(out, k, 'patch.diff')
    if not os.path.exists(pd):
        continue
    root = tempfile.mkdtemp(prefix='refac_')
    try:
        _copy_sources(root)
        p = subprocess.run(['patch', '-p1', '-s', '-i', pd], cwd=root, capture_output=True, text=True)
        if p.returncode != 0:
            print('%s/%s: patch does not apply: %s' % (out, k, (p.stdout + p.stderr)[-200:]))
            continue
        touched = [l[6:].strip() for l in open(pd) if l.startswith('+++ b/')]
        res = []
        for pr in props:
            env = dict(os.environ, VERIF_REPO=root, VERIF_EVIDENCE_DIR=os.path.join(root, '_ev'))
            q = subprocess.run(['./check', pr, '--tier', 'quick'], cwd='/verif', env=env, capture_output=True, text=True)
            if q.returncode != 0:
                lines = [l for l in q.stdout.splitlines() if (': C' in l and not l.startswith(('VIOLATION', 'KNOWN'))) or l.startswith('ANALYSIS')]
                res.append((pr, q.returncode, lines[:3]))
        print('%s/%s touched=%s -> %s' % (os.path.basename(out), k, touched, 'SILENT' if not res else 'ALARM %s' % res))
    finally:
        shutil.rmtree(root, ignore_errors=True)
