#!/venv/bin/python
"""Seventh-round seed briefs: one text file per property under /tmp/seed7/<PID>/BRIEF.md.

The brief holds the property text, the location of the agent's private worktree, how to build / test there, what to deliver, and a
one-line list of the changes earlier rounds already produced for this property (so that the new ones use other mechanisms).  Nothing
about the checks of /verif goes into it."""
import glob, json, os, re, sys

ROOT = '/tmp/seed7'
props = [json.loads(l) for l in open('/verif/properties.jsonl')]

TEMPLATE = """You are helping to evaluate a verification tool for the Python/Cython package cherab-core (plasma spectroscopy on Raysect).
Your job: write THREE independent source changes ("seeded defects") to the package, each of which BREAKS the property below while the
package still builds and its whole existing test suite still passes, and for each a small demonstration program that exposes it.

## The property ({pid}: {title})

{statement}

Quantifier: {quant}

Why the existing tests cannot settle it: {why}

Code the property is anchored in: {files}

## Your private copy

Work ONLY inside the git worktree {wt} (a scratch checkout of the package with the compiled extension modules already in place).
Never touch /repo or /verif, and do not read anything under /verif.
* run python / pytest against your copy:
  cd {wt} && OMP_NUM_THREADS=1 OPENBLAS_NUM_THREADS=1 CHERAB_ROOT={wt} PYTHONPATH=/tmp/wtsite /venv/bin/python -m pytest -q -p no:cacheprovider <test paths>
  (same environment variables for running a script with /venv/bin/python)
* after editing any .pyx / .pxd rebuild in place (about one minute, only edited modules recompile):
  cd {wt} && /venv/bin/python setup.py build_ext --inplace -j 4 >/tmp/seed7/{pid}/build.log 2>&1
* the whole existing suite (must still pass with each change, 579 tests, about 1 minute):
  cd {wt} && OMP_NUM_THREADS=1 OPENBLAS_NUM_THREADS=1 CHERAB_ROOT={wt} PYTHONPATH=/tmp/wtsite /venv/bin/python -m pytest -q -p no:cacheprovider -x -n 4 cherab
* there is no network; use only what is installed.

## What kind of change

Realistic defects a maintainer could commit and a reviewer could wave through - NOT sabotage that ordinary use exposes at once.
Each change must need something specific to manifest. This round, prefer these kinds (use a different kind for each of the three):
 (a) TWO COOPERATING SITES: two edits in different functions/files that are each harmless (or even correct) alone and break the
     property only together (e.g. a helper's contract changed subtly + a caller that relied on the old contract; a default changed in
     one place + a fallback in another; a writer and a reader whose tables no longer agree);
 (b) A FAULT OR EXCEPTION AT A PARTICULAR POINT: state left half-updated when a later step raises (validation after assignment, a file
     partly written, a cache marked valid before the work that may fail, cleanup skipped on an error path), which only shows on the
     NEXT operation;
 (c) A MULTI-STEP HISTORY: the defect shows only for a particular order of public operations (set A, observe, set B, set A back; add,
     remove, add again; reuse of one object in two containers);
 (d) AN UNUSUAL BUT LEGAL INPUT: boundary of a range, empty or single-element collection, equal end points, negative zero, integer
     dtype, non-contiguous / read-only / Fortran-ordered array, unsorted input, isotope vs element, the last charge state, a value
     exactly on a grid point or knot, an argument aliasing another argument;
 (e) A DEPENDENCY OF THE ANCHORED CODE: a base class, shared helper, .pxd declaration, utility module or constant that the anchored
     code relies on (the change sits outside the files listed above but breaks the property through them).
Disguise each change as ordinary maintenance (clean-up, micro-optimisation, helper extraction, vectorisation, "consistency" fix) so
that the diff reads plausibly.  Keep each diff small to medium (typically 5-40 changed lines).
Do NOT repeat the mechanisms of earlier rounds for this property (listed at the end) and avoid the exact functions they touched when
another route exists.

## Deliver

For k = 1, 2, 3 create the directory /tmp/seed7/{pid}/out/k/ containing
* patch.diff - `git diff` of your worktree against HEAD for change k ONLY (each patch must apply alone to a clean HEAD with
  `git apply`; reset the worktree with `git checkout -- .` between changes, and rebuild if you touched Cython sources);
* demo.py    - a self-contained script (run with the environment above, cwd = worktree) that exits 0 on the clean tree and exits
  non-zero (assertion message saying what went wrong) with the change applied; it must exercise the package's public behaviour
  the property speaks about, not private attributes, and finish within a minute;
* note.txt   - File/function changed; what the change claims to be; the actual effect; what it needs in order to manifest; which
  kind (a)-(e); which tests you ran with the change and their result.
Before finishing: for each k confirm yourself that (1) demo.py exits 0 on clean HEAD, (2) exits non-zero with patch k, (3) the whole
existing suite passes with patch k, and leave the worktree clean (git checkout -- . ; rebuild if needed so that compiled modules
match HEAD again).  If you cannot make a change satisfy all three, drop it and try another; deliver fewer rather than unconfirmed ones.
You have roughly 40 minutes; do not spend more than ~12 minutes on one change.  Final answer: a three-line summary, nothing else.

## Changes earlier rounds already made for this property (do not repeat these mechanisms)

{earlier}
"""


def earlier(pid):
    out = []
    for mp in sorted(glob.glob('/verif/seeded/%s-s*/meta.json' % pid), key=lambda p: int(re.search(r's(\d+)/', p).group(1))):
        m = json.load(open(mp))
        note = re.sub(r'\s+', ' ', m.get('note', ''))[:230]
        out.append('- %s' % note)
    return '\n'.join(out)


def main():
    only = sys.argv[1:]
    for p in props:
        pid = p['id']
        if only and pid not in only:
            continue
        d = os.path.join(ROOT, pid)
        os.makedirs(os.path.join(d, 'out'), exist_ok=True)
        q = p.get('quantifier', {})
        text = TEMPLATE.format(pid=pid, title=p['title'], statement=p['statement'], quant=q.get('text', ''), why=p.get('why_tests_cant', ''),
                               files=', '.join(p.get('anchors', {}).get('files', [])), wt=os.path.join(d, 'wt'), earlier=earlier(pid))
        open(os.path.join(d, 'BRIEF.md'), 'w').write(text)
        print(pid, len(text))


main()
