#!/venv/bin/python
"""First-run results of the second-round seeds: run the checks *as they were at the end of round 1* (a git revision of /verif exported to a
scratch directory) against each seed and record caught / missed / analysis error in seeded/INITIAL.json.
usage: initial_r2.py <baseline revision> <PROP> <patch> <seed id> [...]   or   initial_r2.py <baseline revision> --round2 """
import json, os, shutil, subprocess, sys, tempfile
from concurrent.futures import ThreadPoolExecutor
sys.path.insert(0, '/verif')
from sa.selftest import _copy_sources

rev = sys.argv[1]
jobs = []
if sys.argv[2] in ('--round2', '--round3', '--round4', '--round5'):
    rnd = int(sys.argv[2][-1])
    for n in range(1, 21):
        for k in (1, 2, 3):
            p = '/tmp/seed/out%d_c%02d/%d/patch.diff' % (rnd, n, k)
            if os.path.exists(p):
                jobs.append(('C%02d' % n, p, 'C%02d-s%d' % (n, k + 3 * (rnd - 1))))
elif sys.argv[2] == '--round7':
    for n in range(1, 21):
        for k in (1, 2, 3):
            p = '/tmp/seed7/C%02d/out/%d/patch.diff' % (n, k)
            if os.path.exists(p):
                jobs.append(('C%02d' % n, p, 'C%02d-s%d' % (n, k + 15)))
else:
    a = sys.argv[2:]
    jobs = [tuple(a[i:i + 3]) for i in range(0, len(a), 3)]
base = tempfile.mkdtemp(prefix='verif_r1_')
subprocess.check_call('git -C /verif archive %s | tar -x -C %s' % (rev, base), shell=True)


def one(j):
    pid, patch, sid = j
    root = tempfile.mkdtemp(prefix='ini_')
    try:
        _copy_sources(root)
        p = subprocess.run(['patch', '-p1', '-s', '-i', patch], cwd=root, capture_output=True, text=True)
        if p.returncode != 0:
            return sid, 'patch does not apply'
        env = dict(os.environ, VERIF_REPO=root, VERIF_EVIDENCE_DIR=os.path.join(root, '_ev'))
        q = subprocess.run([os.path.join(base, 'check'), pid, '--tier', 'quick'], env=env, capture_output=True, text=True)
        rep = [l for l in q.stdout.splitlines() if ': C' in l and not l.startswith(('KNOWN', 'VIOLATION', 'NOTE'))]
        if q.returncode == 1:
            return sid, 'caught (%s)' % rep[0].split(': ')[1] if rep else 'caught'
        if q.returncode == 2:
            return sid, 'analysis error (counted as missed)'
        return sid, 'missed'
    finally:
        shutil.rmtree(root, ignore_errors=True)


with ThreadPoolExecutor(8) as ex:
    res = dict(ex.map(one, jobs))
shutil.rmtree(base, ignore_errors=True)
f = '/verif/seeded/INITIAL.json'
d = json.load(open(f))
d.update(res)
json.dump(d, open(f, 'w'), indent=1, sort_keys=True)
c = sum(1 for v in res.values() if v.startswith('caught'))
print('seeds: %d run with the checks of %s, %d caught, %d not' % (len(res), rev, c, len(res) - c))
for k in sorted(res):
    print(k, res[k])
