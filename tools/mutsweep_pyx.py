#!/venv/bin/python
"""Line-level mutation operators for Cython sources; each mutant is checked with the quick check of one property (no tests are run: a rebuild
per mutant is too slow, so survivors are only 'not reported by the check' and are read by hand).
usage: mutsweep_pyx.py <PROP> <relpath.pyx> [...] [--max N]"""
import os, random, re, shutil, subprocess, sys, tempfile
from concurrent.futures import ThreadPoolExecutor
sys.path.insert(0, '/verif')
from sa.selftest import _copy_sources

args = sys.argv[1:]
mx = None
if '--max' in args:
    i = args.index('--max'); mx = int(args[i + 1]); del args[i:i + 2]
tests = None
if '--tests' in args:
    i = args.index('--tests'); tests = args[i + 1].split(); del args[i:i + 2]
lines_from = lines_to = None
if '--lines' in args:
    i = args.index('--lines'); lines_from, lines_to = [int(x) for x in args[i + 1].split('-')]; del args[i:i + 2]
prop, files = args[0], args[1:]
REPO = '/repo'
OPS = [(r' <= ', ' < '), (r' < ', ' <= '), (r' >= ', ' > '), (r' > ', ' >= '), (r' == ', ' != '), (r' != ', ' == '), (r' \+ ', ' - '), (r' - ', ' + '),
       (r' \* ', ' / '), (r' / ', ' * '), (r' and ', ' or '), (r' or ', ' and '), (r'\bnot ', ''), (r' \+= ', ' -= '), (r' -= ', ' += '), (r' \*= ', ' /= '),
       (r'\b0\.5\b', '0.25'), (r'\b2\b', '3'), (r'\[0\]', '[1]'), (r'\[1\]', '[0]'), (r' is None', ' is not None'), (r' is not None', ' is None'),
       (r'\b1\b', '2'), (r'\b0\b', '1')]
SKIP = ('#', 'cdef ', 'cimport', 'from ', 'import ', '@', ':', 'cpdef ', 'def ', 'raise ', 'print(', 'class ', 'ctypedef', 'DEF ')
TQ = chr(34) * 3
TS = chr(39) * 3


def mutants(rel):
    src = open(os.path.join(REPO, rel), encoding='utf-8').read()
    lines = src.split('\n')
    out = []
    indoc = False
    for k, line in enumerate(lines):
        st = line.strip()
        if (st.count(TQ) == 1) or (st.count(TS) == 1):
            indoc = not indoc
            continue
        if indoc or not st or st.startswith(SKIP) or st.startswith(TQ) or st.startswith(TS):
            continue
        code = line.split('#')[0]
        if chr(39) in code or chr(34) in code:
            continue
        for rx, rep in OPS:
            m = re.search(rx, code)
            if m:
                out.append((rel, k + 1, rx.strip(), st[:70], code[:m.start()] + rep + code[m.end():], src))
        # statement deletion for plain assignments / calls
        if re.match(r'^[\w.\[\], ]+ [-+*/]?= ', st) or re.match(r'^[\w.]+\(.*\)$', st):
            out.append((rel, k + 1, 'delete', st[:70], line[:len(line) - len(line.lstrip())] + 'pass', src))
    return out


def run_one(job):
    rel, lineno, what, old, newline, src = job
    root = tempfile.mkdtemp(prefix='msx_')
    try:
        _copy_sources(root)
        lines = src.split('\n')
        lines[lineno - 1] = newline
        with open(os.path.join(root, rel), 'w', encoding='utf-8') as fh:
            fh.write('\n'.join(lines))
        env = dict(os.environ, VERIF_REPO=root, VERIF_EVIDENCE_DIR=os.path.join(root, '_ev'))
        q = subprocess.run(['/verif/check', prop, '--tier', 'quick'], env=env, capture_output=True, text=True)
        return (rel, lineno, what, old, newline.strip()[:70], q.returncode)
    finally:
        shutil.rmtree(root, ignore_errors=True)


jobs = []
for rel in files:
    jobs += mutants(rel)
if lines_from is not None:
    jobs = [j for j in jobs if lines_from <= j[1] <= lines_to]
random.Random(2).shuffle(jobs)
if mx:
    jobs = jobs[:mx]
with ThreadPoolExecutor(12) as ex:
    res = list(ex.map(run_one, jobs))
surv = [r for r in res if r[5] == 0]
err = [r for r in res if r[5] == 2]
print('%s: %d mutants, %d reported, %d analysis errors, %d not reported' % (prop, len(res), sum(r[5] == 1 for r in res), len(err), len(surv)))
if tests and surv:
    # build each surviving mutant in a scratch worktree and run the related tests
    import queue
    NW = 8
    pool = queue.Queue()
    for k in range(NW):
        d = '/tmp/msx_wt_%d' % k
        if not os.path.isdir(d):
            subprocess.run(['sh', '/verif/tools/mkworktree.sh', d], capture_output=True)
        pool.put(d)
    key = {(j[0], j[1], j[2], j[4].strip()[:70]): j for j in jobs}

    def build(wt):
        return subprocess.run(['/venv/bin/python', 'setup.py', 'build_ext', '--inplace', '-j', '2'], cwd=wt, capture_output=True, text=True, timeout=1800).returncode == 0

    def test_one(r):
        j = key.get((r[0], r[1], r[2], r[4]))
        if j is None:
            return r + ('?',)
        wt = pool.get()
        try:
            rel, lineno, what, old, newline, src = j
            lines = src.split('\n'); lines[lineno - 1] = newline
            with open(os.path.join(wt, rel), 'w', encoding='utf-8') as fh:
                fh.write('\n'.join(lines))
            try:
                if not build(wt):
                    return r + ('does-not-build',)
                env = dict(os.environ, OMP_NUM_THREADS='1', OPENBLAS_NUM_THREADS='1', CHERAB_ROOT=wt, PYTHONPATH='/tmp/wtsite')
                q = subprocess.run(['/venv/bin/python', '-m', 'pytest', '-q', '-x', '-p', 'no:cacheprovider'] + tests, cwd=wt, env=env, capture_output=True, text=True, timeout=900)
                return r + ('tests-pass' if q.returncode == 0 else 'tests-fail',)
            except subprocess.TimeoutExpired:
                return r + ('timeout',)
        finally:
            with open(os.path.join(wt, j[0]), 'w', encoding='utf-8') as fh:
                fh.write(j[5])
            pool.put(wt)
    with ThreadPoolExecutor(NW) as ex:
        tested = list(ex.map(test_one, surv))
    # leave the worktrees built at HEAD
    wts = []
    while not pool.empty():
        wts.append(pool.get())
    with ThreadPoolExecutor(NW) as ex:
        list(ex.map(build, wts))
    from collections import Counter
    print('%s: survivors by outcome: %s' % (prop, dict(Counter(t[-1] for t in tested))))
    surv = [t for t in tested if t[-1] == 'tests-pass']
for r in sorted(surv):
    print('SURVIVOR %s:%d [%s] %s  ->  %s' % r[:5])
for r in sorted(err)[:15]:
    print('ERROR    %s:%d [%s] %s  ->  %s' % r[:5])
