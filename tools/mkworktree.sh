#!/bin/sh
# usage: mkworktree.sh <dir>   -- scratch git worktree of /repo HEAD with the built extension modules copied in
set -e
D="$1"
git -C /repo worktree add -q --detach "$D" HEAD
cd /repo
find cherab -name '*.so' -o -name '*.c' | grep -v '/build/' > /tmp/.wt_files.$$
rsync -a --files-from=/tmp/.wt_files.$$ /repo/ "$D"/
rm -f /tmp/.wt_files.$$
# make generated files newer than the sources so an in-place build only recompiles what is edited later
find "$D"/cherab -name '*.c' -exec touch {} +
sleep 1
find "$D"/cherab -name '*.so' -exec touch {} +
echo "worktree ready: $D"
