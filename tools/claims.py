# CLAIMS[pid] = dict(text=..., technique=..., note=...) ; NA[pid] = reason.  Read by mkmanifest.py.
CLAIMS['C15'] = dict(
    text='Decides, for every observer-group class and every one of its property pairs and membership methods (all sites, '
         'not sampled inputs), the structural clauses that make broadcasting faithful: setter bound to its own name with a '
         'getter; getter and both setter branches use the member attribute named like the property over all members in order; '
         'element-wise assignment dominated by the length-equality test whose failure raises ValueError before any member is '
         'touched; scalar branch assigns the given value to every member; membership mutators type-check before re-parenting; '
         '__getitem__ and observe() shapes. This is the whole copy-paste-slip class the property describes; it does not decide '
         "raysect's Node.parent semantics or validation inside member observers.",
    technique='ast lint: property/decorator binding, attribute agreement, structured guard dominance')
CLAIMS['C20'] = dict(
    text='Decides the derivative-operator clause whole for all grids >= 2x2: the stencil loop body is partially evaluated for '
         'each of the 9 admissible boundary configurations of a cell (a row depends only on the configuration) and the moment '
         'conditions (constants annihilated; Dx, Dy exact on linear, Dxy on bilinear, Dxx/Dyy on quadratic fields in interior '
         'cells; scaling by dx, dy) are exact rational identities. For the ADMT operator decides, as exact identities of '
         'rational functions in the jet variables of psi and D, the tensor components, cx = d_x cxx + d_y cxy + cxx/R, '
         'cy = d_x cxy + d_y cyy + cxy/R (consistency with div(D grad f) in cylindrical geometry), the isotropic reduction to '
         'the Laplacian for any flux map, and the assembly times sqrt(dx dy). Does not decide convergence order on curved fields '
         'or finiteness where grad psi = 0.',
    technique='finite-configuration partial evaluation of the stencil loop + exact rational-function algebra with formal derivatives')
CLAIMS['C09'] = dict(
    text='Decides necessary structural conditions on every function and internal call edge of ionisation_balance.py: no path '
         'discards a supplied argument (nullness/guard analysis of parameter overwrites -- the class of the discarded donor '
         'rate set); every call edge forwards each role (n_e, t_e, donor, donor density and charge, free variable, element '
         'density, species densities, rate sets) to the callee parameter of the same role (dropped or swapped arguments), through '
         'all 18 entry points; the sum-to-one constraint row, bounds (0, n_e), division by the same n_e and the density '
         'scalings; and, by exhaustive unrolling for Z = 1..18 with and without donor with rates as opaque symbols, that the '
         'assembled matrix is tridiagonal with M[z+1,z] = S_z, M[z,z+1] = alpha_{z+1} + (n_D/n_e) C_{z+1} and zero column sums, '
         'i.e. exactly the stated neighbour balance for any null vector. Does not decide that scipy returns that vector or '
         'numerical agreement between input representations.',
    technique='guard-dominance on parameter stores, role-forwarding over the call graph, finite unrolling + exact polynomial identities')

CLAIMS['C19'] = dict(
    text='Decides the property whole for the registry as written in the source (the content is finite and literal): every '
         'module-level Element(...)/Isotope(...) call is folded to a record; names unique over all species, symbols unique '
         'among elements and among isotopes, atomic numbers equal an embedded periodic table, isotopes bound to a defined '
         'element with A >= Z and |weight - A| < 0.1; the key expressions of the two index builders are interpreted over all '
         'records, and every identifier the statement names must be a key mapping to that very object with no collision between '
         'different objects, lookups lower-casing the query like the keys; hash/eq agreement of Element, Isotope and Line '
         '(hashed fields subset of compared fields, != the De Morgan dual of ==, identifying fields compared, hashed fields '
         'read-only in the .pxd).',
    technique='literal-table evaluation (constant folding of constructor calls) + interpretation of index key expressions + hash/eq field-set comparison')

CLAIMS['C06'] = dict(
    text='Every add_*/update_*/get_* of the 13 families (14 getters) and the 11 install routes is abstractly traced (dict shapes, '
         'path templates, file events -- an interpreter over ast, nothing executed) and the structural necessary conditions of '
         'the statement are decided on all of them: the file written through add_X and update_X is the file get_X reads '
         '(template and argument roles) and families use distinct templates; writer and reader index the content with the '
         'same key expression and the reader reads only record keys the writer stores; the nesting built by add_X is the '
         'nesting update_X unpacks; repository_path is forwarded on every call edge that can carry it and every path written or '
         'created is rooted at it; multi-key files are read-modify-write from the same path; getters convert a missing file or '
         'key into RuntimeError; nothing can raise between truncating a file and dumping it and validation precedes the store '
         'of a key; encode_transition lower-cases str() of both levels. Does not decide bit-exact float64 round trips through '
         'JSON, file-system interleavings or collisions of exotic level strings.',
    technique='abstract interpretation over ast (dict-shape / path-template / file-event tracer), writer-reader agreement, call-edge forwarding, exception-handler discipline')

CLAIMS['C07'] = dict(
    text='Decides structural necessary conditions on all 14 accessors of the OpenADAS provider and all 13 interpolating + 13 null '
         'rate classes: each accessor catches exactly what its repository getter raises for missing data (raise set computed '
         'from the getter) and returns the family null rate iff missing_rates_return_null, else re-raises; every rate/null '
         'constructor call matches the __init__ signature resolved through the Cython class hierarchy; rates are requested with '
         'the isotope-stripped element on every path while the five photon-coefficient accessors request the wavelength of the '
         'un-stripped species, wavelength() stripping only as the documented fallback; every density/temperature/energy '
         "parameter of every evaluate() is guarded '<= 0 -> return 0' before any interpolator or log10; extrapolation type is "
         "'none' exactly when extrapolate is false and accessors pass permit_extrapolation; unit wiring (PhotonToJ on photon "
         'tables, sen, st/sref, q/qref, 10**interpolant, axis kinds vs argument kinds). Does not decide that interpolants pass '
         'through grid points, finiteness under extrapolation or raising outside the range (raysect interpolators).',
    technique='exception-flow comparison (handler set vs getter raise set), signature binding through the class hierarchy, guard dominance, constant propagation through the IfExp idiom, def-use wiring checks')

CLAIMS['C01'] = dict(
    text='Decides necessary structural conditions of history independence on every public mutator of Plasma, Beam, Laser, their '
         'model managers, Composition, the attenuator and every emission model (sites and paths, not call sequences): every setter '
         'writing a source of a builder of derived state (bounding geometry, materials, attenuator wiring) re-runs that builder, '
         'resolved on the concrete class with virtual dispatch and through notifier callbacks; every field another class reads '
         'inside a cached computation is announced by each mutator writing it and the reader subscribes a callback that reaches '
         'its builder or invalidator; lazily cached models test a sentinel that populate sets and _change resets; setters of '
         'subscribed sources do remove-old/add-new/invalidate and materials hand every model its sources; the scene-graph hook '
         '_modified and every notifier callback are reachable through Python dispatch; Species/Line/Element/Isotope fields are '
         'read-only. A stale cache shows only for a particular order of calls; a missing invalidation edge is visible in the '
         'source regardless of order. Does not decide equality of observed spectra/densities or weak-reference lifetimes.',
    technique='effects/derived-state closure with virtual dispatch, observer-graph reachability, lazy-cache typestate, declared-visibility lint (who-may-write, def vs cdef dispatch)')

CLAIMS['C18'] = dict(
    text='Decides structural necessary conditions on all four laser profiles and both laser spectra: every setter writing a field '
         'read by the builder of the energy-density function or of the binned spectrum (resolved on the concrete class through '
         'virtual calls) re-runs that builder, and every setter writing a field that sizes the laser segments notifies the '
         'subscribed laser node; the installed energy density is pulse_energy/(c pulse_length) times the unit distribution '
         '(constant-in-z profiles) or pulse_energy times the unit-volume distribution (pulsed profile), with unit-integral '
         'Gaussian prefactors, as exact rational forms; generate_segmented_cylinder tiles [0, length] exactly once and never '
         'returns an empty list; no two differently named accessors return the same field; the binned spectrum uses delta = '
         '(max-min)/bins, centres min+(i+1/2)delta, consecutive edges, power = density*delta and the erf-difference form for the '
         'Gaussian. Does not decide the cross-section/volume integrals of the distribution functions, erf accuracy or '
         'sum-to-one numerically.',
    technique='effects/derived-state closure with virtual dispatch, exact rational algebra on builder bodies, accessor field-set comparison')

CLAIMS['C16'] = dict(
    text='Decides structural necessary conditions for every instrument class below SpectroscopicInstrument: each lazily computed '
         'setting (spectral range, bin count, pipeline classes and kwargs) is guarded by a sentinel that its builder sets, that '
         'every constructor initialises and that every setter writing a field the builder reads -- resolved on the concrete '
         'class -- resets or rebuilds, so no setting can survive a change of a parameter it was computed from; eager derived '
         'state (pixel wavelength arrays) is rebuilt by every setter of its sources; calibrate divides the integral over '
         '[e_i, e_(i+1)] by the width of the same pixel for every pixel, after the range check; the range/step/bin-count '
         'formulas of Spectrometer and Polychromator are the documented ones. Does not decide the floating-point bin-width '
         'inequality or conservation under arbitrary source binning (raysect Spectrum.integrate).',
    technique='effects/derived-state closure over Python classes (lazy-sentinel typestate), constructor-initialisation check, structural formula matching')

CLAIMS['C13'] = dict(
    text='Decides structural necessary conditions: an interval analysis with outward IEEE rounding of the inline remainder(x, p) '
         'shows every non-degenerate return value lies in [0, p) (the clause about the periodic range, including tiny negative '
         'arguments); for each of the 22 tabulated wrapper classes plus Swizzle3D the value returned by evaluate, in exact normal '
         'form with fields traced to the constructor parameter that initialised them, is the wrapped function evaluated exactly '
         'once at the documented mapped argument on every branch (iso-mapping, swizzles, slices, axisymmetric and cylindrical '
         'maps with rotation by the toroidal angle in degrees, input/output clamps, per-coordinate periodic reduction); in all 14 '
         'samplers the k-th output index is the loop variable indexing the k-th coordinate array passed as k-th argument, loops '
         'cover the full counts, range samplers use linspace with both end points and point samplers read column k for '
         'coordinate k. Does not decide point-in-polygon (triangulation) or behaviour for huge/subnormal arguments other than '
         'the periodic range.',
    technique='interval abstract interpretation with rounding, exact normal-form comparison against an argument-map table, index/loop agreement')

CLAIMS['C03'] = dict(
    text='Decides structural necessary conditions on the five passive models: every sampled density or temperature entering a '
         'radiance term as a factor or rate argument is positive wherever that term is accumulated (early return of the untouched '
         'spectrum or a positivity condition around the accumulation; a guard on a sum counts for that sum) -- the zero / '
         'non-negative clause; the radiance normal forms are the documented expressions with each leaf sampled from the '
         'documented distribution ((1/4pi) PEC ne ni; (1/4pi) n_rec sum_d n_d PEC_d(ne,Te,T_d); (1/4pi)(plt ne ni + prb ne ni+ + '
         'prc nH ni+)/(max-min) added to every bin; the Hutchinson free-free prefactor and its average over consecutive bin '
         'edges), from which linearity in each density is read off; species and rate selection in _populate_cache; BREMS_CONST, '
         'EXP_FACTOR and the physical constants fold to the documented formula with independent CODATA values (rel. 1e-6). Does '
         'not decide the Gauss-Legendre bin average, Gaunt-factor tables or any numeric total.',
    technique='guard dominance per radiance term, exact rational normal forms of radiance expressions, call-argument provenance, constant folding against reference values')

CLAIMS['C02'] = dict(
    text='Decides structural necessary conditions for the seven line shapes and the two primitives by finite-guard partial '
         'evaluation (polarisation in {pi, sigma, no} x {B = 0, B != 0}, every other condition enumerated) and exact rational '
         'algebra: a line with no width calls no primitive and the primitives return the spectrum untouched for width <= 0; the '
         'primitive calls under "no" are exactly those under "pi" plus those under "sigma" with coefficients added per identical '
         '(primitive, wavelength, width) -- bin-by-bin additivity for all inputs since the same primitive gets the same arguments; '
         'the coefficients under "no" sum to exactly the supplied radiance (sin^2 := 1 - cos^2, multiplet ratios normalised at '
         'their source, Stark weights lorentz + gauss = 1, the nine MSE components as a rational identity) with pi share 1/2 '
         'sin^2 and each sigma share 1/4 sin^2 + 1/2 cos^2; both primitives clip the window identically; the Gaussian primitive '
         'adds radiance (erf(A(i+1)) - erf(A(i)))/(2 delta) to bin i (recognised through the loop-carried recurrence), i.e. the '
         'bin average of the unit-area Gaussian up to the +-10 sigma truncation, and the Lorentzian primitive adds radiance times '
         'the integral over consecutive edges / delta. Does not decide the Stark quadrature, truncation error or the hyp2f1 '
         'normalisation constant.',
    technique='finite-guard partial evaluation (path enumeration over a finite abstract domain) + exact rational algebra on sink-call multisets; loop-carried recurrence recognition')

CLAIMS['C04'] = dict(
    text='Decides structural necessary conditions: the beam density is zero before the source and beyond the beam length before the '
         'attenuator is consulted, zero outside the clamp radius when clamping is on, and the direction is the axis for z <= 0; one '
         'envelope sigma^2(z) = sigma0^2 + z^2 tan^2(divergence) is what the attenuator density, the direction field and the '
         'bounding geometry use (exact normal forms, sqrt reduced); the direction components are x z^2 t_x^2/sigma_x^2, y z^2 '
         't_y^2/sigma_y^2, z, normalised -- the field whose streamlines keep x/sigma_x constant; the transverse profile is '
         'exp(-(x^2/sx^2 + y^2/sy^2)/2)/(2 pi sx sy) times the on-axis density; the stopping coefficient is sum_i (Z_i n_i) '
         'coeff_i(E_int, sum_j Z_j^2 n_j / Z_i, T_i) and the on-axis density (P/EvToJ(E m))/v exp(-cumulative_trapezoid(S)/v) '
         'with one speed, sampled on [0, length]. Does not decide particle conservation as an integral, monotonic decay or '
         'trapezoid accuracy.',
    technique='guard dominance, exact rational normal forms with sqrt reduction, call-argument provenance (wiring) checks')
CLAIMS['C05'] = dict(
    text='Decides structural necessary conditions: CX radiance = (1/4pi) n_beam n_rec q with q = (q_1 + sum k_i q_i)/(1 + sum k_i), '
         'the same k_i in numerator and denominator (the weighted-mean form implying min q <= q <= max q for k >= 0); beam population '
         '= sum (Z n) c / sum (Z n); beam emission = (1/4pi) n_beam sum_i Z_i n_i q_i(E_int,i, sum_j Z_j^2 n_j / Z_i, T_i); every '
         'BeamCXPEC.evaluate call, ground and excited, receives (interaction energy, receiver temperature, ion density, Z-effective, '
         '|B|) in that order by provenance, the interaction energy deriving from beam direction, beam energy and receiver flow; zero '
         'beam or receiver density returns the untouched spectrum before any rate; Plasma.z_effective = sum n Z^2 / sum n Z over '
         'ions, ion_density = sum n. Does not decide numeric totals or provider behaviour for neutrals.',
    technique='exact rational normal forms with formal loop sums, call-argument provenance, guard ordering')

CLAIMS['C17'] = dict(
    text='Decides structural necessary conditions: in the area and centroid accumulations the loop term is the shoelace / Bourke term '
         'of the edge (v_i, v_i+1) and the closing term equals it under i -> n-1, i+1 -> 0 for every accumulator (every edge counted '
         'once for any starting vertex); the area accumulation is the same expression in both properties; cy is cx with x and y '
         'exchanged in the first factor; the centroid divides by 6 times the signed half-sum and the area is the absolute half-sum '
         '(orientation independence); volume = 2 pi centroid.x area; the collection total is the sum of voxel volumes; the '
         'Monte-Carlo estimate accumulates triangle areas cumulatively, looks the triangle up with total_area * uniform(), samples '
         'inside that triangle\'s own vertices and averages over the requested number of samples. Does not decide exactness for '
         'concave polygons numerically or unbiasedness (the +1 lookup convention depends on raysect find_index).',
    technique='exact rational algebra with index substitution (loop term vs closing term), structural wiring checks')

CLAIMS['C11'] = dict(
    text='Decides structural necessary conditions: in both SART variants the value stored as the new solution is clipped at zero on '
         'every path (non-negativity); the update rule is exactly x + (relaxation/rho_j) sum_i (W_ij/L_i)(b_i - yhat_i) over rows '
         'with L_i != 0 for cells with rho_j > 0 and x otherwise, minus beta (Lap x)_j in both branches of the constrained variant, '
         'with rho, L, yhat and the penalty computed from the documented sums/products (exact normal forms); the two variants are '
         'identical modulo the penalty, with the documented stopping rule and convergence measure; NNLS/LSTSQ solve the stacked system '
         '[W; alpha L] x = [b; 0], both NNLS arguments are divided by one scalar that is undone on the returned norm, and the solver '
         'output is returned unmodified. Does not decide optimality/KKT (delegated to scipy/numpy), fixed points or convergence.',
    technique='exact normal forms of the update expressions per branch, sibling diff modulo a named term, structural wiring of the stacked system')

CLAIMS['C10'] = dict(
    text='Decides structural necessary conditions on both integrators, both emitters and the map setters: every store into the '
         'spectrum is dominated by "source index > -1" and the index is a voxel_map value (cells mapped to -1 receive nothing); '
         'accumulate/flush pairing -- the length accumulated for the current source is stored before every reset and after the '
         'loop, is accumulated for every sample taken while a source is active, and the amount per sample is dt = length/n, '
         'independent of the cell indices (so merging cells cannot change a source total and nothing of the chord inside active '
         'cells is dropped); the voxel_map subscripts are in grid axis order, each index from its own coordinate and step, the phi '
         'index from an angle reduced modulo the period; bins = voxel_map.max() + 1 in both setters and masked-out cells map to -1. '
         'Does not decide chord-length accuracy (two-step bound), edges/corners/tangent rays or angular wrap numerics.',
    technique='guard dominance, accumulate/flush ordering on the structured CFG, index/axis agreement')

CLAIMS['C12'] = dict(
    text='Decides structural necessary conditions: with B = (b.x, b.y, b.z) the poloidal direction is (b.x, 0, b.z), the surface normal '
         '(-b.z, 0, b.x) and the toroidal vector (0, 1, 0), so -- as exact polynomial identities -- the three are mutually orthogonal, '
         'cross(poloidal, toroidal) = normal componentwise and dot(B, normal) = 0 (sign conventions); both unit vectors come from '
         'normalise(); FluxCoordToCartesian uses the same two directions scaled to the prescribed poloidal and normal magnitudes and '
         'returns poloidal + normal + toroidal componentwise; wiring: psi_normalised is (psi - psi_axis)/(psi_lcfs - psi_axis) '
         'clamped with min = 0, map2d blends the outside value and IsoMapper2D(psi_normalised, profile) by inside_lcfs, map3d / '
         'map_vector3d wrap the 2D result in the axisymmetric mappers, the LCFS mask is polygon > 0 and psi_n <= 1, b_r = -dpsi/dz/r, '
         'b_z = dpsi/dr/r, b_t = f(psi_n)/r inside and the vacuum field outside. A differently composed but equivalent '
         'implementation is reported as undecided, not as a violation. Does not decide interpolation accuracy, axisymmetry '
         'numerically or the polygon mask.',
    technique='exact vector algebra (dot/cross identities on component normal forms), constructor-tree wiring checks after def-use inlining')

CLAIMS['C14'] = dict(
    text='Decides structural necessary conditions for Caching1D/2D/3D: noninterference -- nothing stored into the persistent sample, '
         'coefficient and flag arrays (nor into the local system that produces the coefficients) depends on the query coordinates, '
         'only subscripts may (necessary for history independence); the cell flag is set after every coefficient store of that cell, '
         'the wrapped function is sampled at grid nodes in argument order and stored normalised with (min, 1/delta), which the '
         'coefficients undo; the out-of-range policy (index window -> cached, no_boundary_error -> wrapped function on the original '
         'arguments, else ValueError); and the Hermite tables: every entry of the 4x4, 16x16 and 64x64 constraint matrices equals the '
         'corresponding mixed derivative of the basis monomial of its column at the node, the right-hand sides are the node value and '
         'the matching central differences, and the returned polynomial uses the same column-to-monomial map -- i.e. the cached '
         'polynomial is the Hermite interpolant of the sampled nodes (equality at nodes, exactness for functions linear in each '
         'coordinate, given an exact solve). Does not decide the floating-point solve, the Taylor re-expansion, or the error bound for '
         'twice-differentiable functions.',
    technique='taint (noninterference) analysis, statement ordering, guard dominance with chained comparisons, exact polynomial algebra on the constraint tables')

CLAIMS['C08'] = dict(
    text='Decides ONLY the structural clauses of the property; its core -- that fixed-column slicing and line counting recover every '
         'number of every well-formed ADF file for all grid sizes -- is input-quantified text processing with no structural invariant '
         'and is not decided. Decided on all 11 install routes and 6 parsers: the nesting and record keys produced by each parser '
         '(and converter) are exactly what the repository updater unpacks (abstract tracing); the documented conversions per output '
         'key (ADF11 ne = 1e6 10^x, te = 10^x, rates = 1e-6 10^x with the charge offset -1 exactly for scd/plt/pls and each route '
         'passing its own file type; ADF12 densities x 1e6 and all q* x 1e-6; ADF15 ne x 1e6, rate x 1e-6, wavelength / 10; ADF21/22 '
         'densities x 1e6 and sen, st, sref x normalisation, 1e-6 for 21 and 22-BME, 1 for 22-BMP; the factors themselves); the three '
         'ADF15 header scrapers agree on block-type map, Angstrom-to-nm conversion and output tables and use only regex groups their '
         'patterns define; reject paths (ADF11 element check before any table is read, absent ADF15 block raises, header/metadata '
         'validation); axis order (ADF11 reshape((n_te, n_ne)) + swapaxes, ADF15 reshape((n_ne, n_te)), ADF2x sv[:, density]).',
    technique='abstract tracing of install routes (producer/consumer dict-shape agreement), structural conversion-chain matching, sibling agreement, regex group counting via re.compile')

# ---- rules added after the seeding and refactoring campaigns (DESIGN.md 10.6, 10.7); appended to the claim texts
_ADD = {
 'C01': 'Also: a cached field written only under a condition is reset by _change, populate routines do not go through configuration setters (R3b); '
        'subscriptions are added after the old one is removed (R4); a notification or rebuild stands after the assignment it announces (R1); the '
        'Notifier never mutates its callback list while iterating it (R7). A builder assigns the properties of the persisting bounding geometry on both sides of every configuration test (R2c); entries are not deleted from the callback list by ascending position. A builder detaches what the previous configuration attached, not an object a setter has already replaced (R2d).',
 'C02': 'Also: the Gauss quadrature table is rebuilt for every change of its order range (R6); a component carrying a share of the radiance is '
        'never given zero width; components skipped inside a loop lose their share (loop continue semantics). The multiplet table a line shape stores is a copy of the caller\'s array (R7). The quadrature table is built and read for the same sequence of orders (writer / reader layout agreement). The Zeeman cosine uses the normalised viewing vector (R3c); a write-and-rebuild helper of the quadrature setters is read where it is called. doppler_shift and thermal_broadening have their documented closed forms, the viewing vector normalised (R8); the component groups of a ZeemanStructure are each walked once.',
 'C03': 'Also applies the cache/notification rules of C01 to the passive emission models (reported as C03-via-C01). On every path of the total radiated power no term of n_e (n_i (P_line + P_cont) + n_0 P_cx) is dropped. A default integrator shared by all instances and re-bound by each is reported (shared default objects); the search for neutral hydrogen isotopes is not ended by the first missing one. The C01 rules are also applied to plasma/node.pyx, plasma/model.pyx and utility/notify.py. RadiationFunction adds f / (4 pi (max - min)) to every bin (R5); the free-free Gaunt factor: definitions of u and gamma^2, region table, table axes (R6); includes the Gauss-quadrature rule of C02.',
 'C04': 'Also: Beam.direction is decided per path (the axis is returned only where the documented field is the axis); the sample points and the beam '
        'direction are taken to plasma coordinates with the same transform; applies the rules of C01 to Beam and the attenuator (C04-via-C01). The attenuation integral is decided algebraically with the cumulative trapezoid as a leaf; sums over charged species visit every species with its own charge (shared rule). A cumulative trapezium rule written out with cumsum is recognised; its weights must be the spacing of the sample axis. The C01 rules are also applied to plasma/node.pyx and utility/notify.py.',
 'C05': 'Also: per-state population lists are created afresh for every excited state (R5); emission, weighted mean and z_effective are decided on '
        'the values each path returns, whatever the spelling; applies the rules of C01 to the beam models and the composition (C05-via-C01). Nothing an iteration of a species sum computes for itself is written back into a name the next iteration starts from. A loop over a list does not read the variable of the loop that filled it (shared rule). The C01 rules are also applied to plasma/node.pyx and utility/notify.py. BeamMaterial hands the models point, beam direction and observation direction in plasma space (R6); the weight-one coefficient is the rate with donor_metastable == 1 (R7).',
 'C06': 'Also: in multi-file updates the content written to each file is rebuilt on every path of that iteration (R9); tables are stored as given, '
        'only type conversions between input and stored record (R10). Getters do not memoise across repository paths (R11); nothing is computed inside the write block (R7). No strict-JSON option that can raise inside the write block. The content a getter indexes is the plain mapping json.load returns, not an auto-vivifying RecursiveDict (R6, reading helpers expanded); a file reader memoised with functools is emptied of pre-write content by every writer; a mutable default that is returned is not filled by its callers. RecursiveDict.from_dict / freeze keep every entry under its key (R12); valid_charge is charge <= atomic number (R8).',
 'C07': 'Also: single-point branches of an interpolant agree with the full-grid branch in axis, argument position, table slice and length test (R7); '
        'evaluate() is non-negative by construction (R8); memo dictionaries held by the provider are keyed at the granularity the value uses (K). The evaluation coordinate uses the library log10 the grids were built with (a module-level re-definition is reported); the single-point 1D branch is the constant of the single stored table value whatever the spelling of the choice; class-level memos are keyed by the instance fields the value reads. The single-point choice is made on the length of the table it belongs to; __call__ of every rate class forwards its parameters to evaluate() in order (R9). The one-point branch carries the factor applied to the table in the full-grid branch (R7, early-return spelling included); memoised file readers of the repository (shared rule). PhotonToJ is x h c 1e9 / wavelength and its inverse (R10); keys of a mapping are not paired with values in another order (shared rule); includes the repository rules of C06 for the readers.',
 'C08': 'The ADF11 converter is decided by abstract interpretation of its loops (any spelling); axis order by affine index maps; the ADF15 reading '
        'loops by a structural recogniser; the fixed-width field bounds algebraically. Integer header fields read through a regular expression are captured by a (sub)pattern that can take more than one digit (R7, pattern parsed with re._parser); per-iteration freshness of the objects the converters hand on (R6); BaseFactorConversion.to / inv decided algebraically. The thermal-CX 3D table is the 2D table broadcast along the new axis, decided by applying numpy tile / repeat / reshape to a table of symbols (R8). The repository rules of C06 are applied to the updaters and readers the install routes use (C08-via-C06). The ADF21/22 table assembly is replayed on arrays of symbols when its spelling is not the recognised one (R5).',
 'C10': 'Also: every field a ray-transfer pipeline or pixel processor accumulates into is re-initialised when an observation starts (R5). The voxel map an emitter stores is a copy (R6); steps and period are decided on the values the constructor leaves in the fields. Constructor calls do not pass the mask in the position of the voxel map (swapped arguments of the same kind, part of every -K rule). A store into the spectral array (or a local view of it) accumulates, never overwrites (R2); an integrator does not keep attributes of the material keyed by the material\'s identity when a setter rebinds them (shared rule). No sample leaves the loop before the source-change test (R2); a quotient accepted as an integer by a round() test is not converted with int() (shared rule); RayTransferCylinder / RayTransferBox hand the emitter the grid they bound, the bounding primitive inside it by a fraction of a cell (R7).',
 'C11': 'The SART update is decided on the value stored on every path (array roles derived by dataflow); the stacked system by block-matrix abstract '
        'evaluation (vstack / concatenate / transposes / row selections are interpreted). Values memoised in module-level state by the identity of an array argument are reported (K); the stacked system is not typed after an input array and the data arguments are not changed in place (R5). The convergence exit does not precede x := x_new of that iteration; unknowns are not removed from the system a Tikhonov matrix regularises. No single-precision C declarations (shared rule); a branch that ends the voxel iteration early is followed to its store. invert_svd returns pinv(W) . b (R6); includes the operator rules of C20 for admt_utils.py.',
 'C12': 'The LCFS mask is decided per path (inside exactly when polygon > 0 and psi_n <= 1 were both established); a bare interpolant as psi_normalised '
        'is a violation; applies the wrapper rules of C13 to the mappers, mask and clamp the equilibrium is built from (C12-via-C13). An array profile is not re-laid out depending on its shape. The zero-field fallback of FluxCoordToCartesian is decided on both in-plane field components (R1). example_equilibrium passes every stored quantity as the parameter it describes (R3); an optional clamp bound is tested with \'is None\', not for truth (via C13).',
 'C13': 'Also: the polygon mask takes its triangles only from triangulate2d(vertices) (R4); a rotation written out component-wise is compared with '
        'the documented rotation algebraically and must be guarded off the axis; the floor form of the remainder is analysed like the fmod form. remainder() is analysed with disjunctive tests and an unbounded argument (an argument equal to the period may not pass through); the polygon vertices are only converted, never sliced. remainder: chained comparisons and positive-period tests are interpreted (R1); constructor-derived flags of Swizzle3D take their value per selector (R2); \'x or default\' is not used for numeric arguments of the wrappers (K).',
 'C14': 'Also: a sample is normalised once, when first computed, and every axis of the cache grid has at least two nodes (R5). Inside the sampling loops only a node\'s own emptiness decides whether it is sampled (every empty node of the stencil is sampled). The nodes of an axis are laid out from the bounds and the resolution of that same axis. data_delta_inv * data_delta = 1 on every path through the constructor (R6). derivatives_array, factorial and find_index of interpolators/utility.pyx (R7).',
 'C15': 'Also: parenting and the membership update happen for every accepted member (not under another condition). Rules read flattened bodies. Name lookup iterates the member list, not the scenegraph children. A member observer\'s property setter filters the pipelines with the same types as its getter (R5). Member setters visit every pipeline; origin / direction compose translate(origin) * rotate_basis(direction, up) (R5).',
 'C16': 'Also: a reset of a lazy setting is unconditional (or conditional on "value changed"); calibrate and the spectral settings are decided on '
        'normalised bodies (loop-carried integration limits, narrowest pixel over all pixels). A value memoised in a field is reset by every mutator of its sources before anything reads it again (R4, shared memo rule); calibrated spectra do not share one buffer (R3); the polychromator range and step are decided as reductions over the filters (an extreme taken from the filter that is extreme in another quantity is a violation). Early returns count as conditions on a reset, and an "unchanged" test on a container kept by reference does not justify skipping a rebuild; every store into the calibrated spectrum is integral / width; the range is taken over every accommodated spectrum. The wavelength range of a filter is read from the sorted array (R5); settings accumulated in a loop over the spectra are reductions over all of them, not the value of the last (R2, reduction loops desugared). The invalidation routine resets its fields unconditionally (R6).',
 'C17': 'Area, centroid and volume are decided on the values the code computes for polygons of 3, 4 and 5 symbolic vertices on every path. The triangles are computed from the vertex array as stored (R3); arrays handed out are not buffers kept on the instance. The vertices are not reordered after the triangulation. The stored vertex array is the voxel\'s own, never the caller\'s array (R3). Area / centroid computed by module-level or imported helpers are followed; the sampled triangle corners are decided by value.',
 'C19': 'Lookups are decided by interpreting lookup_element / lookup_isotope on probe arguments for every object (any letter case; element + mass '
        'number); a field compared through a function of its value while hashed raw is a violation. The lookup interpreter models positional tables filled by the index builders and builtin isinstance tests; the two indices must be distinct objects. A key built by a helper is followed; a component that is an attribute of a field must be unique over the registry (R4). Declared C types of atomic_number / mass_number hold the registry\'s values (R5); index builders are discovered structurally, one dict serving both registries is reported; includes C06-R8 for repository/utility.py.',
 'C20': 'Also: dx derives from x-axis quantities only and dy from y-axis quantities only (axis tags, R1a); shared operator caches are keyed by every '
        'argument (K). On every returning path of calculate_admt the assembled operator is the theory operator under the conditions of that path (R7); the operators handed in are not changed in place and the operator matrices are not typed after the grid (R8). Per-voxel coefficients scale the rows of the operator matrices (row / column broadcasting distinguished). In-place changes of the operators inside private helpers are followed (R8); a cell count is not taken as the largest grid index + 1 (R1a). Includes the input-preservation rule of C11 for nnls.py / lstsq.py and the sampler rules of C13 for sample2d_points.',
 'C09': 'Also: function-local memo dictionaries inside loops are keyed by every loop-varying operand (R6); no function changes the arrays it is given and no '
        'result buffer takes the dtype of an input (R7). Profile interpolators are linear (R8). The array drivers compute the result of a grid point from every profile at that same point (R9). Includes the wrapper rules of C13 for AxisymmetricMapper and the repository rules of C06 for repository/atomic.py.',
 'C18': 'Also: no path of a distribution function returns a constant (cut-off), the Gaussian beam prefactor matches the width of its own exponent, old laser '
        'segments are detached by iterating the node\'s own record (R6); memoised and constructor-derived fields follow their sources (R7, shared memo rule). Segment offsets do not come from a floating-point arange; an "unchanged" shortcut in a setter whose field the constructor presets directly is reported. Segment offsets are not generated by a floating-point arange, in a loop or a comprehension (R3). No value is written into the density / power arrays outside the bin loop (R5); includes the C01 rules for the laser node.',
}
for _p, _t in _ADD.items():
    if _p in CLAIMS:
        CLAIMS[_p]['text'] = CLAIMS[_p]['text'] + ' ' + _t

# ---- rules added after the fifth round (mutation sweeps): appended to the claim text
_GEN = ('Shared generic rules applied to the files of the property (-K): names read but bound on no path (deleted defining statement; declared-only '
        'C accumulators and memoryviews), private fields read but never written, sibling guard census (a validation every sibling of a family '
        'performs must not be missing or inverted in one), sibling parameter defaults, argument order at calls whose parameter names are known; '
        'order of validation and state change in non-constructor methods (a field stored, a container reset or refilled, before the test that rejects the '
        'argument -- also when the rejection sits in the refresh helper called after the store), already-done memos whose key omits an argument the skipped '
        'work depends on, kept arrays that may be the caller\'s buffer together with kept values derived from them, module-level scratch arrays only partly '
        'overwritten before use. '
        'If an anchored construct vanishes, these rules decide whether the reason is a positive defect (violation) before the run is declared an analysis error.')
_ADD2 = {
 'C06': 'valid_charge, RecursiveDict and getters as above; deletions of a defining statement in an updater or getter are reported as unbound names.',
 'C07': 'Every unit conversion class of conversion.py has its documented factor and to / inv forms (R10, helpers expanded); the wavelength is looked up for the emitting ion: charge - 1 for recombination and thermal CX lines, charge for excitation (R3).',
 'C08': 'Fixed-format fields are cut at the columns of the ADAS record layout and sections have their documented sizes (R9: ADF21/22 header, ADF12 block, ADF11 header line fields, density / temperature split); install_files calls install_K for configuration key K, all 11 routes, options forwarded under their own names (R10); counted value sections start at 0 and advance by one per value (R11).',
 'C09': 'A function that takes a CX donor and uses a CX rate set loads one or hands the donor on (R1b never-loaded); a charge sum that is identically zero as divisor is reported.',
 'C10': 'RayTransferCylinder / RayTransferBox (R7): grid shape and steps per axis, rmin, bounding primitive inside the grid; pipelines / pixel processors (R8): a matrix row is the sum of the sample spectra (times sensitivity) divided by the number of samples.',
 'C14': 'Normalisation constants: data_delta_inv * data_delta = 1 on every constructor path (R6) and the interpolation helpers derivatives_array / factorial / find_index (R7).',
 'C16': 'Lazily built members are computed when unset and returned (R7); the wavelength range a PolychromatorFilter reports is the min / max of its wavelength array (R5); _clear_spectral_settings clears unconditionally (R6).',
 'C17': 'An accumulator or memoryview that is declared and never initialised is reported (shared rule).',
}
for _p, _t in _ADD2.items():
    if _p in CLAIMS:
        CLAIMS[_p]['text'] = CLAIMS[_p]['text'] + ' ' + _t
for _p in CLAIMS:
    CLAIMS[_p]['text'] = CLAIMS[_p]['text'] + ' ' + _GEN

# ---- everything not claimed above is pending / not applicable
_pending = 'check not built yet in this session (see DESIGN.md build order); not claimed until it is'
for _p in ['C%02d' % i for i in range(1, 21)]:
    if _p not in CLAIMS:
        NA[_p] = _pending
