# CLAIMS[pid] = dict(text=..., technique=..., note=...) ; NA[pid] = reason.  Read by mkmanifest.py.
CLAIMS['C15'] = dict(
    text='Decides, for every observer-group class and every one of its property pairs and membership methods (all sites, '
         'not sampled inputs), the structural clauses that make broadcasting faithful: setter bound to its own name with a '
         'getter; getter and both setter branches use the member attribute named like the property over all members in order; '
         'element-wise assignment dominated by the length-equality test whose failure raises ValueError before any member is '
         'touched; scalar branch assigns the given value to every member; membership mutators type-check before re-parenting; '
         '__getitem__ and observe() shapes. This is the whole copy-paste-slip class the property describes; it does not decide '
         "raysect's Node.parent semantics or validation inside member observers.",
    technique='ast lint: property/decorator binding, attribute agreement, structured guard dominance')
CLAIMS['C20'] = dict(
    text='Decides the derivative-operator clause whole for all grids >= 2x2: the stencil loop body is partially evaluated for '
         'each of the 9 admissible boundary configurations of a cell (a row depends only on the configuration) and the moment '
         'conditions (constants annihilated; Dx, Dy exact on linear, Dxy on bilinear, Dxx/Dyy on quadratic fields in interior '
         'cells; scaling by dx, dy) are exact rational identities. For the ADMT operator decides, as exact identities of '
         'rational functions in the jet variables of psi and D, the tensor components, cx = d_x cxx + d_y cxy + cxx/R, '
         'cy = d_x cxy + d_y cyy + cxy/R (consistency with div(D grad f) in cylindrical geometry), the isotropic reduction to '
         'the Laplacian for any flux map, and the assembly times sqrt(dx dy). Does not decide convergence order on curved fields '
         'or finiteness where grad psi = 0.',
    technique='finite-configuration partial evaluation of the stencil loop + exact rational-function algebra with formal derivatives')
_pending = 'check not built yet in this session (see DESIGN.md build order); not claimed until it is'
for _p in ['C01','C02','C03','C04','C05','C06','C07','C08','C09','C10','C11','C12','C13','C14','C16','C17','C18','C19']:
    NA[_p] = _pending
