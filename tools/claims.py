# CLAIMS[pid] = dict(text=..., technique=..., note=...) ; NA[pid] = reason.  Read by mkmanifest.py.
CLAIMS['C15'] = dict(
    text='Decides, for every observer-group class and every one of its property pairs and membership methods (all sites, '
         'not sampled inputs), the structural clauses that make broadcasting faithful: setter bound to its own name with a '
         'getter; getter and both setter branches use the member attribute named like the property over all members in order; '
         'element-wise assignment dominated by the length-equality test whose failure raises ValueError before any member is '
         'touched; scalar branch assigns the given value to every member; membership mutators type-check before re-parenting; '
         '__getitem__ and observe() shapes. This is the whole copy-paste-slip class the property describes; it does not decide '
         "raysect's Node.parent semantics or validation inside member observers.",
    technique='ast lint: property/decorator binding, attribute agreement, structured guard dominance')
_pending = 'check not built yet in this session (see DESIGN.md build order); not claimed until it is'
for _p in ['C01','C02','C03','C04','C05','C06','C07','C08','C09','C10','C11','C12','C13','C14','C16','C17','C18','C19','C20']:
    NA[_p] = _pending
