#!/venv/bin/python
"""Regenerate the seeded-changes table and the refactoring summary inside DESIGN.md (between the GENERATED markers)."""
import json, os, re
D = '/verif/DESIGN.md'
s = open(D).read()
idx = json.load(open('/verif/seeded/INDEX.json'))
rows = ['| seed | files | first run (before strengthening) | reported now by |', '|---|---|---|---|']
for e in idx:
    meta = {}
    mp = '/verif/seeded/%s/meta.json' % e['id']
    if os.path.exists(mp):
        meta = json.load(open(mp))
    now = ', '.join('%s (%s)' % (r, p) if r else '' for p, r in e['checks'].items() if r) or '**not detected**'
    rows.append('| %s | %s | %s | %s |' % (e['id'], ', '.join(os.path.basename(f) for f in e['files']), e.get('first_run', ''), now))
n = len(idx)
det = sum(1 for e in idx if e['detected'])
first = sum(1 for e in idx if e.get('first_run') == 'caught')
table = '\n'.join(rows) + '\n\n%d seeded changes kept; %d were reported on the first run of the check as it stood; %d are reported now.\n' % (n, first, det)
ridx = json.load(open('/verif/refactorings/INDEX.json'))
areas = {}
for e in ridx:
    areas.setdefault(e['area'], []).append(e)
rt = ['| area | refactorings | checks that read a touched file |', '|---|---|---|']
for a in sorted(areas):
    cs = sorted({c for e in areas[a] for c in e['checks']})
    rt.append('| %s | %d | %s |' % (a, len(areas[a]), ', '.join(cs)))
rtable = '\n'.join(rt) + '\n\n%d behaviour-preserving refactorings kept under `refactorings/`; all checks are silent on all of them (`tools/refac_index.py`).\n' % len(ridx)
for name, body in (('SEEDS', table), ('REFACTORINGS', rtable)):
    a, b = '<!-- GENERATED:%s -->' % name, '<!-- /GENERATED:%s -->' % name
    if a in s:
        s = s[:s.index(a) + len(a)] + '\n' + body + s[s.index(b):]
open(D, 'w').write(s)
print('tables written: %d seeds, %d refactorings' % (n, len(ridx)))
