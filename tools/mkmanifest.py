#!/venv/bin/python
"""Regenerates MANIFEST.json from the CLAIMS table below (single source of truth)."""
import json, os
HERE = os.path.dirname(os.path.dirname(os.path.abspath(__file__)))
NOTE = ('Trusted base: Cython parser (raw parse tree only, no compiler transforms run), CPython ast, the analyses '
        'in /verif/sa and the frozen instance tables named in DESIGN.md appendix A. Python dynamism (monkey '
        'patching, subclasses outside cherab/) is outside the analysed program. The check decides the source text '
        'of /repo, never the compiled extension modules; nothing from /repo is imported or executed.')
CLAIMS = {}
NA = {}
exec(open(os.path.join(HERE, 'tools', 'claims.py')).read())
props = [json.loads(l)['id'] for l in open(os.path.join(HERE, 'properties.jsonl'))]
checks = []
for pid in props:
    if pid in CLAIMS:
        c = CLAIMS[pid]
        checks.append(dict(
            property_id=pid,
            quick_cmd='./check %s --tier quick' % pid,
            thorough_cmd='./check %s --tier thorough' % pid,
            evidence_file='evidence/%s.json' % pid,
            replay_cmd_template='./check %s --replay {path}' % pid,
            engine='sa',
            level_claimed=dict(category='other', text=c['text'], design_ref=c.get('ref', 'DESIGN.md section 5, ' + pid)),
            level_note=NOTE + ' ' + c.get('note', ''),
            technique=c['technique']))
na = [dict(property_id=p, reason=NA[p]) for p in props if p not in CLAIMS]
man = dict(
    version=1,
    setup_cmd='/venv/bin/python -c "import Cython, sys; sys.path.insert(0, \'/verif\'); import sa.main"',
    hooks=dict(guard='CHERAB_CORE_VERIF', enable='none needed: static analysis reads the working tree; no hook commits',
               baseline_off_cmd='cd /repo && /venv/bin/python setup.py build_ext --inplace -j 16 >/dev/null 2>&1; cd /repo && /venv/bin/python -m pytest -ra -q -p no:cacheprovider --timeout=900 --continue-on-collection-errors',
               source_commits=[], add_only=True),
    engines=[dict(name='sa', path='sa/', serves_properties=sorted(CLAIMS),
                  kind_free_text='repository-specific static analysis: Cython parser + ast front ends lowered to one ast IR; '
                                 'guard dominance, effects/derived-state closure, observer graph, exact rational algebra, '
                                 'finite-guard partial evaluation, dict-shape and path-template agreement')],
    checks=checks,
    notes='All checks are static (family: static analysis). Exit 0/1/2 contract in DESIGN.md 1.3; exit 2 = ANALYSIS-ERROR '
          '(front end failed, anchored subject vanished, rule under its floor). known_findings.json lists recorded and fixed defects.',
    not_applicable=na)
json.dump(man, open(os.path.join(HERE, 'MANIFEST.json'), 'w'), indent=1)
print('claimed', sorted(CLAIMS), 'n/a', [x['property_id'] for x in na])
