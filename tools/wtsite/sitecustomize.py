# Redirect the editable 'cherab' install to a scratch worktree: CHERAB_ROOT=/tmp/wt PYTHONPATH=/tmp/wtsite python ...
import os, sys
_root = os.environ.get('CHERAB_ROOT')
if _root:
    _m = sys.modules.get('cherab')
    if _m is not None:
        _m.__path__ = [os.path.join(_root, 'cherab')]
    sys.meta_path[:] = [f for f in sys.meta_path if 'editable' not in str(getattr(f, '__module__', '')) + str(type(f).__module__) + str(getattr(f, '__name__', ''))]
