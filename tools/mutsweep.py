#!/venv/bin/python
"""Classic mutation operators applied at every site of the given .py source files; each mutant is checked with the quick check of one property.
usage: mutsweep.py <PROP> <relpath> [<relpath> ...]  [--max N]   -> prints survivors (mutants the check does not report), grouped by operator.
A development aid (nothing here is registered in MANIFEST.json): survivors are read by hand -- they are equivalent mutants, changes outside the
property, or missing rules."""
import ast, os, random, shutil, subprocess, sys, tempfile, json
from concurrent.futures import ThreadPoolExecutor
sys.path.insert(0, '/verif')
from sa.selftest import _copy_sources

args = sys.argv[1:]
mx = None
if '--max' in args:
    i = args.index('--max'); mx = int(args[i + 1]); del args[i:i + 2]
tests = None
if '--tests' in args:
    i = args.index('--tests'); tests = args[i + 1].split(); del args[i:i + 2]
prop, files = args[0], args[1:]
REPO = '/repo'

CMP = {ast.Lt: '<=', ast.LtE: '<', ast.Gt: '>=', ast.GtE: '>', ast.Eq: '!=', ast.NotEq: '==', ast.Is: 'is not', ast.IsNot: 'is'}
BIN = {ast.Add: '-', ast.Sub: '+', ast.Mult: '/', ast.Div: '*'}


def seg(src_lines, n):
    return n.lineno, n.col_offset, n.end_lineno, n.end_col_offset


def mutants(rel):
    src = open(os.path.join(REPO, rel), encoding='utf-8').read()
    tree = ast.parse(src)
    lines = src.split('\n')
    out = []

    def replace(node, new, what):
        l0, c0, l1, c1 = seg(lines, node)
        if l0 != l1:
            return
        line = lines[l0 - 1]
        # ast columns are utf-8 byte offsets
        b = line.encode('utf-8')
        nl = (b[:c0] + new.encode('utf-8') + b[c1:]).decode('utf-8')
        out.append((rel, l0, what, line.strip()[:70], nl))
    docstrings = set()
    for n in ast.walk(tree):
        if isinstance(n, (ast.FunctionDef, ast.ClassDef, ast.Module)) and n.body and isinstance(n.body[0], ast.Expr) and isinstance(n.body[0].value, ast.Constant):
            docstrings.add(id(n.body[0].value))
    for n in ast.walk(tree):
        if isinstance(n, ast.Compare) and len(n.ops) == 1 and type(n.ops[0]) in CMP:
            txt = ast.get_source_segment(src, n)
            l, r = ast.get_source_segment(src, n.left), ast.get_source_segment(src, n.comparators[0])
            if txt and l and r and '\n' not in txt:
                replace(n, '%s %s %s' % (l, CMP[type(n.ops[0])], r), 'cmp')
        elif isinstance(n, ast.BinOp) and type(n.op) in BIN:
            l, r = ast.get_source_segment(src, n.left), ast.get_source_segment(src, n.right)
            if l and r and isinstance(getattr(n.left, 'value', None), str) is False:
                if isinstance(n.left, ast.Constant) and isinstance(n.left.value, str):
                    continue
                replace(n, '(%s %s %s)' % (l, BIN[type(n.op)], r), 'arith')
        elif isinstance(n, ast.BoolOp):
            parts = [ast.get_source_segment(src, v) for v in n.values]
            if all(parts):
                replace(n, (' or ' if isinstance(n.op, ast.And) else ' and ').join('(%s)' % p for p in parts), 'bool')
        elif isinstance(n, ast.UnaryOp) and isinstance(n.op, ast.Not):
            o = ast.get_source_segment(src, n.operand)
            if o:
                replace(n, '(%s)' % o, 'not')
        elif isinstance(n, ast.Constant) and id(n) not in docstrings and isinstance(n.value, (int, float)) and not isinstance(n.value, bool):
            v = n.value
            new = repr(v + 1) if isinstance(v, int) else repr(v * 2 if v else 1.0)
            replace(n, new, 'const')
        elif isinstance(n, ast.Subscript) and isinstance(n.slice, ast.Constant) and n.slice.value in (0, 1, -1) and isinstance(n.ctx, ast.Load):
            b = ast.get_source_segment(src, n.value)
            if b:
                replace(n, '%s[%d]' % (b, {0: 1, 1: 0, -1: 0}[n.slice.value]), 'index')
        elif isinstance(n, ast.Call) and len(n.args) >= 2 and not n.keywords and all(isinstance(a, ast.Name) for a in n.args[:2]) and n.args[0].id != n.args[1].id:
            f = ast.get_source_segment(src, n.func)
            a = [ast.get_source_segment(src, x) for x in n.args]
            if f and all(a):
                replace(n, '%s(%s)' % (f, ', '.join([a[1], a[0]] + a[2:])), 'argswap')
        elif isinstance(n, (ast.Assign, ast.AugAssign, ast.Expr)) and n.lineno == n.end_lineno and id(getattr(n, 'value', None)) not in docstrings:
            if isinstance(n, ast.Expr) and not isinstance(n.value, ast.Call):
                continue
            line = lines[n.lineno - 1]
            out.append((rel, n.lineno, 'delete', line.strip()[:70], line[:len(line) - len(line.lstrip())] + 'pass'))
    return src, out


def run_one(job):
    rel, lineno, what, old, newline, src = job
    root = tempfile.mkdtemp(prefix='ms_')
    try:
        _copy_sources(root)
        lines = src.split('\n')
        lines[lineno - 1] = newline
        text = '\n'.join(lines)
        try:
            ast.parse(text)
        except SyntaxError:
            return None
        with open(os.path.join(root, rel), 'w', encoding='utf-8') as fh:
            fh.write(text)
        env = dict(os.environ, VERIF_REPO=root, VERIF_EVIDENCE_DIR=os.path.join(root, '_ev'))
        q = subprocess.run(['/verif/check', prop, '--tier', 'quick'], env=env, capture_output=True, text=True)
        return (rel, lineno, what, old, newline.strip()[:70], q.returncode)
    finally:
        shutil.rmtree(root, ignore_errors=True)


jobs = []
for rel in files:
    src, ms = mutants(rel)
    for m in ms:
        jobs.append(m + (src,))
random.Random(1).shuffle(jobs)
if mx:
    jobs = jobs[:mx]
res = []
with ThreadPoolExecutor(12) as ex:
    for r in ex.map(run_one, jobs):
        if r is not None:
            res.append(r)
surv = [r for r in res if r[5] == 0]
err = [r for r in res if r[5] == 2]
if tests and surv:
    # which survivors also pass the related existing tests (run in scratch worktrees that carry the built extension modules)
    import queue
    NW = 6
    pool = queue.Queue()
    for k in range(NW):
        d = '/tmp/ms_wt_%d' % k
        if not os.path.isdir(d):
            subprocess.run(['sh', '/verif/tools/mkworktree.sh', d], capture_output=True)
        pool.put(d)
    srcs = {rel: open(os.path.join(REPO, rel), encoding='utf-8').read() for rel in files}
    bylines = {}
    for j in jobs:
        bylines[(j[0], j[1], j[2], j[4].strip()[:70])] = j

    def test_one(r):
        j = bylines.get((r[0], r[1], r[2], r[4]))
        if j is None:
            return r + ('?',)
        wt = pool.get()
        try:
            rel, lineno, what, old, newline, src = j
            lines = src.split('\n'); lines[lineno - 1] = newline
            with open(os.path.join(wt, rel), 'w', encoding='utf-8') as fh:
                fh.write('\n'.join(lines))
            env = dict(os.environ, OMP_NUM_THREADS='1', OPENBLAS_NUM_THREADS='1', CHERAB_ROOT=wt, PYTHONPATH='/tmp/wtsite')
            try:
                q = subprocess.run(['/venv/bin/python', '-m', 'pytest', '-q', '-x', '-p', 'no:cacheprovider'] + tests, cwd=wt, env=env, capture_output=True, text=True, timeout=600)
                ok = q.returncode == 0
            except subprocess.TimeoutExpired:
                ok = False
            return r + ('tests-pass' if ok else 'tests-fail',)
        finally:
            with open(os.path.join(wt, j[0]), 'w', encoding='utf-8') as fh:
                fh.write(srcs[j[0]])
            pool.put(wt)
    with ThreadPoolExecutor(NW) as ex:
        surv = list(ex.map(test_one, surv))
    passing = [r for r in surv if r[-1] == 'tests-pass']
    print('%s: of %d survivors %d also pass %s' % (prop, len(surv), len(passing), ' '.join(tests)))
    surv = passing
print('%s: %d mutants, %d reported, %d analysis errors, %d survivors' % (prop, len(res), sum(r[5] == 1 for r in res), len(err), len(surv)))
for r in sorted(surv):
    print('SURVIVOR %s:%d [%s] %s  ->  %s' % r[:5])
for r in sorted(err)[:10]:
    print('ERROR    %s:%d [%s] %s  ->  %s' % r[:5])
