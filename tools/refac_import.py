#!/venv/bin/python
"""usage: refac_import.py <AREA> <outdir> <first k>  -- copy outdir/1..5 (patch.diff, note.txt) into /verif/refactorings/<AREA>-r<k..>/ and
append them to INDEX.json (checks are filled in by refac_index.py)."""
import json, os, re, shutil, sys
area, out, k0 = sys.argv[1].upper(), sys.argv[2], int(sys.argv[3])
R = '/verif/refactorings'
idx = json.load(open(os.path.join(R, 'INDEX.json')))
have = {e['id'] for e in idx}
for k in range(1, 6):
    src = os.path.join(out, str(k))
    if not os.path.exists(os.path.join(src, 'patch.diff')):
        continue
    rid = '%s-r%d' % (area, k0 + k - 1)
    if rid in have:
        continue
    dst = os.path.join(R, rid)
    os.makedirs(dst, exist_ok=True)
    shutil.copy(os.path.join(src, 'patch.diff'), dst)
    if os.path.exists(os.path.join(src, 'note.txt')):
        shutil.copy(os.path.join(src, 'note.txt'), dst)
    files = sorted(set(re.findall(r'^\+\+\+ b/(\S+)', open(os.path.join(dst, 'patch.diff')).read(), re.M)))
    idx.append(dict(id=rid, area=area, patch='refactorings/%s/patch.diff' % rid, files=files, checks={}))
    print('imported', rid, files)
idx.sort(key=lambda e: (e['area'], int(e['id'].split('-r')[1])))
json.dump(idx, open(os.path.join(R, 'INDEX.json'), 'w'), indent=1)
