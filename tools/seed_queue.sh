#!/bin/sh
# usage: seed_queue.sh PROP OUTDIR  -- verify seeds OUTDIR/1..3 sequentially under a global lock (one scratch worktree)
PROP="$1"; OUT="$2"; TAG=$(echo "$PROP" | tr 'a-z' 'A-Z')
exec 9>/tmp/seed/.lock
flock 9
for k in 1 2 3 4 5; do
  if [ -f "$OUT/$k/patch.diff" ] && [ -f "$OUT/$k/demo.py" ]; then
    /venv/bin/python /verif/tools/seed_verify.py "$TAG" "$OUT/$k" "$TAG-s$k"
  fi
done
