#!/bin/sh
# run every claimed quick check; print one line per property
cd "$(dirname "$0")/.."
for p in $(python3 -c "import json; print(' '.join(c['property_id'] for c in json.load(open('MANIFEST.json'))['checks']))"); do
  out=$(./check $p --tier ${1:-quick} 2>&1); code=$?
  echo "$p exit=$code $(echo "$out" | grep -E "^$p (quick|thorough)" | cut -c1-120) $(echo "$out" | grep -c '^VIOLATION') viol $(echo "$out" | grep -E 'selftest' | cut -c1-100)"
done
