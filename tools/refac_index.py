#!/venv/bin/python
"""Rebuild the `checks` field of /verif/refactorings/INDEX.json (which checks read a file the refactoring touches) and run those
checks against every refactoring: all must stay silent.  Exit 1 if any check raises an alarm."""
import json, os, shutil, subprocess, sys, tempfile
from concurrent.futures import ThreadPoolExecutor
sys.path.insert(0, '/verif')
from sa.selftest import _copy_sources
R = '/verif/refactorings'
idx = json.load(open(os.path.join(R, 'INDEX.json')))
files_of = {}
for f in os.listdir('/verif/evidence'):
    if f.endswith('.json'):
        d = json.load(open(os.path.join('/verif/evidence', f)))
        files_of[d['property_id']] = set(d['coverage'].get('files_analysed', []))
only = set(sys.argv[1:])


def one(e):
    pids = sorted(p for p, fs in files_of.items() if any(f in fs for f in e['files']))
    e['checks'] = {p: None for p in pids}
    if only and not (only & set(pids)) and e['id'] not in only:
        return e, []
    root = tempfile.mkdtemp(prefix='refidx_')
    alarms = []
    try:
        _copy_sources(root)
        p = subprocess.run(['patch', '-p1', '-s', '-i', os.path.join('/verif', e['patch'])], cwd=root, capture_output=True, text=True)
        if p.returncode != 0:
            return e, [('patch', 'does not apply')]
        for pid in pids:
            if only and pid not in only and e['id'] not in only:
                continue
            env = dict(os.environ, VERIF_REPO=root, VERIF_EVIDENCE_DIR=os.path.join(root, '_ev'))
            q = subprocess.run(['./check', pid, '--tier', 'quick'], cwd='/verif', env=env, capture_output=True, text=True)
            if q.returncode != 0:
                alarms.append((pid, [l for l in q.stdout.splitlines() if ': C' in l or l.startswith('ANALYSIS')][:2]))
    finally:
        shutil.rmtree(root, ignore_errors=True)
    return e, alarms


with ThreadPoolExecutor(12) as ex:
    res = list(ex.map(one, idx))
bad = 0
for e, alarms in res:
    if alarms:
        bad += 1
        print('ALARM', e['id'], alarms)
# merge into the index as it is *now* (entries imported while this run was going are kept)
cur = {e['id']: e for e in json.load(open(os.path.join(R, 'INDEX.json')))}
for e, a in res:
    cur[e['id']] = e
out = sorted(cur.values(), key=lambda e: (e['area'], int(e['id'].split('-r')[1])))
json.dump(out, open(os.path.join(R, 'INDEX.json'), 'w'), indent=1)
print('refactorings=%d alarms=%d' % (len(res), bad))
sys.exit(1 if bad else 0)
