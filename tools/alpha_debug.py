#!/usr/bin/env python3
"""alpha_debug.py <refactoring-or-seed dir> : apply its patch to a scratch copy of the baseline and print what sa/alpha.py undoes"""
import os, shutil, subprocess, sys, tempfile, ast
sys.path.insert(0, os.path.dirname(os.path.dirname(os.path.abspath(__file__))))
d = os.path.abspath(sys.argv[1])
tmp = tempfile.mkdtemp(prefix='alpha_')
try:
    shutil.copytree('/verif/baseline/cherab', os.path.join(tmp, 'cherab'))
    subprocess.run(['patch', '-p1', '-s', '-d', tmp, '-i', os.path.join(d, 'patch.diff')], check=False)
    from sa import alpha, cy2ast
    files = [l[6:].strip() for l in open(os.path.join(d, 'patch.diff')) if l.startswith('+++ b/')]
    for f in files:
        if not f.endswith(('.py', '.pyx', '.pxd')):
            continue
        tree = ast.parse(open(os.path.join(tmp, f)).read()) if f.endswith('.py') else cy2ast.lower_file(tmp, f)
        print(f, alpha.normalise(tmp, f, tree))
        if len(sys.argv) > 2:
            for n in ast.walk(tree):
                if isinstance(n, ast.FunctionDef) and n.name == sys.argv[2]:
                    print(ast.unparse(n))
finally:
    shutil.rmtree(tmp, ignore_errors=True)
