#!/usr/bin/env python3
"""Store the reference copy of the analysed sources (committed HEAD of /repo) under /verif/baseline.

The copy is used by sa/alpha.py only to recognise pure renamings (see there); no rule compares text with it.
Run once per pinned revision:  python3 tools/mkbaseline.py
"""
import os
import shutil
import subprocess
import sys

VERIF = os.path.dirname(os.path.dirname(os.path.abspath(__file__)))
REPO = os.environ.get('VERIF_REPO', '/repo')
out = os.path.join(VERIF, 'baseline')
shutil.rmtree(out, ignore_errors=True)
files = subprocess.check_output(['git', '-C', REPO, 'ls-tree', '-r', '--name-only', 'HEAD', 'cherab'], text=True).split('\n')
n = 0
for f in files:
    if not f.endswith(('.py', '.pyx', '.pxd')) or '/tests/' in f:
        continue
    blob = subprocess.check_output(['git', '-C', REPO, 'show', 'HEAD:' + f])
    dst = os.path.join(out, f)
    os.makedirs(os.path.dirname(dst), exist_ok=True)
    with open(dst, 'wb') as fh:
        fh.write(blob)
    n += 1
rev = subprocess.check_output(['git', '-C', REPO, 'rev-parse', 'HEAD'], text=True).strip()
with open(os.path.join(out, 'REVISION'), 'w') as fh:
    fh.write(rev + '\n')
print('baseline: %d files from %s' % (n, rev))
