#!/usr/bin/env python3
"""Tiny self-lint: names loaded in a module of /verif/sa that are bound nowhere in an enclosing scope of that module and are not builtins.
(The checkers have rarely executed branches; a NameError there would turn a check into an analysis error on exactly the inputs that matter.)"""
import ast, builtins, os, sys

ROOT = os.path.join(os.path.dirname(os.path.dirname(os.path.abspath(__file__))), 'sa')
bad = 0


def bound_names(node):
    out = set()
    for n in ast.iter_child_nodes(node):
        stack = [n]
        while stack:
            x = stack.pop()
            if isinstance(x, (ast.FunctionDef, ast.AsyncFunctionDef, ast.ClassDef)):
                out.add(x.name)
                continue          # inner scope: its bindings are its own
            if isinstance(x, ast.Lambda):
                continue
            if isinstance(x, ast.Name) and isinstance(x.ctx, (ast.Store, ast.Del)):
                out.add(x.id)
            elif isinstance(x, (ast.Import, ast.ImportFrom)):
                for a in x.names:
                    out.add((a.asname or a.name).split('.')[0])
            elif isinstance(x, ast.ExceptHandler) and x.name:
                out.add(x.name)
            elif isinstance(x, (ast.Global, ast.Nonlocal)):
                out.update(x.names)
            elif isinstance(x, ast.arg):
                out.add(x.arg)
            elif isinstance(x, (ast.ListComp, ast.SetComp, ast.DictComp, ast.GeneratorExp)):
                for g in x.generators:
                    for t in ast.walk(g.target):
                        if isinstance(t, ast.Name):
                            out.add(t.id)
            stack.extend(ast.iter_child_nodes(x))
    return out


def check(node, scopes, path):
    global bad
    here = bound_names(node)
    if isinstance(node, (ast.FunctionDef, ast.AsyncFunctionDef, ast.Lambda)):
        a = node.args
        for x in a.posonlyargs + a.args + a.kwonlyargs + ([a.vararg] if a.vararg else []) + ([a.kwarg] if a.kwarg else []):
            here.add(x.arg)
    env = scopes + [here] if not isinstance(node, ast.ClassDef) else scopes + [here]
    for n in ast.iter_child_nodes(node):
        stack = [n]
        while stack:
            x = stack.pop()
            if isinstance(x, (ast.FunctionDef, ast.AsyncFunctionDef, ast.ClassDef, ast.Lambda)):
                for d in getattr(x, 'decorator_list', []):
                    stack.append(d)
                # class bodies do not enclose their methods' free names
                check(x, (scopes if isinstance(node, ast.ClassDef) else env), path) if False else check(x, env if not isinstance(node, ast.ClassDef) else scopes + [here], path)
                continue
            if isinstance(x, ast.Name) and isinstance(x.ctx, ast.Load):
                if not any(x.id in s for s in env) and not hasattr(builtins, x.id):
                    print('%s:%d: undefined name %s' % (path, x.lineno, x.id))
                    bad += 1
            stack.extend(ast.iter_child_nodes(x))


for r, d, fs in os.walk(ROOT):
    for f in fs:
        if f.endswith('.py'):
            p = os.path.join(r, f)
            tree = ast.parse(open(p).read(), p)
            check(tree, [], os.path.relpath(p, os.path.dirname(ROOT)))
print('undefined names: %d' % bad)
sys.exit(1 if bad else 0)
