#!/bin/sh
# usage: quickseed.sh PROP patch.diff -- run the check against a source-only copy of /repo with the patch applied (no build, no tests)
T=$(mktemp -d /tmp/qs_XXXXXX)
/venv/bin/python -c "import sys; sys.path.insert(0,'/verif'); from sa.selftest import _copy_sources; _copy_sources('$T')" 2>/dev/null
(cd $T && patch -p1 -s --forward -i "$2" </dev/null) || echo "PATCH FAILED"
VERIF_REPO=$T VERIF_EVIDENCE_DIR=$T/_ev /verif/check "$1" --tier quick | grep -E "^cherab|^ANALYSIS|quick:" | cut -c1-300
python3 -c "import json,sys; [print(u[:400]) for u in json.load(open('$T/_ev/$1.json'))['coverage'].get('undecided',[])]" 2>/dev/null
rm -rf $T
