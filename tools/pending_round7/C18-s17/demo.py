"""
C18 demo 2: after any sequence of setter calls the profile must equal a freshly constructed one.

A setter call that is rejected with ValueError (stddev_x = -1) must leave the ConstantBivariateGaussian profile untouched:
the reported parameters stay valid, later (valid) parameter changes keep working and the energy density integrated
over the beam cross-section equals pulse_energy / (c * pulse_length).
"""
import numpy as np
from scipy.constants import c
from scipy.integrate import dblquad

from cherab.core.model.laser import ConstantBivariateGaussian


def cross_section_integral(profile, z):
    sx, sy = profile.stddev_x, profile.stddev_y
    return dblquad(lambda y, x: profile.get_energy_density(x, y, z), -8 * sx, 8 * sx, -8 * sy, 8 * sy,
                   epsabs=0, epsrel=1e-9)[0]


for bad_attr in ("stddev_x", "stddev_y"):
    profile = ConstantBivariateGaussian(pulse_energy=2., pulse_length=1e-8, laser_radius=0.05, laser_length=1.,
                                        stddev_x=0.01, stddev_y=0.02)

    for bad_value in (-1., 0.):
        try:
            setattr(profile, bad_attr, bad_value)
        except ValueError:
            pass
        else:
            raise AssertionError("{} = {} was accepted".format(bad_attr, bad_value))

    # the rejected values must not be stored
    assert (profile.stddev_x, profile.stddev_y) == (0.01, 0.02), \
        "rejected {} was stored: stddev_x={}, stddev_y={}".format(bad_attr, profile.stddev_x, profile.stddev_y)

    # later valid changes must work as on a fresh object
    try:
        profile.pulse_energy = 3.
        profile.pulse_length = 2e-8
    except ValueError as e:
        raise AssertionError("valid pulse_energy/pulse_length change refused after a rejected {}: {}".format(bad_attr, e))

    fresh = ConstantBivariateGaussian(pulse_energy=3., pulse_length=2e-8, laser_radius=0.05, laser_length=1.,
                                      stddev_x=0.01, stddev_y=0.02)

    for attr in ("pulse_energy", "pulse_length", "stddev_x", "stddev_y", "laser_radius", "laser_length"):
        assert getattr(profile, attr) == getattr(fresh, attr), "parameter {} differs from fresh object".format(attr)

    for point in ((0, 0, 0), (0.005, -0.01, 0.3), (0.02, 0.03, 0.9)):
        a, b = profile.get_energy_density(*point), fresh.get_energy_density(*point)
        assert np.isclose(a, b, rtol=1e-12, atol=0), \
            "energy density at {} is {} but a freshly constructed profile gives {}".format(point, a, b)

    for z in (0., 0.7):
        integral = cross_section_integral(profile, z)
        expected = profile.pulse_energy / (c * profile.pulse_length)
        assert np.isclose(integral, expected, rtol=1e-6), \
            "cross-section integral {} != pulse_energy / (c pulse_length) = {}".format(integral, expected)

print("OK")
