"""
C14 demo 2 -- evaluation outside the caching area, repeated.

With no_boundary_error=True a Caching3D object must evaluate the wrapped
function directly for points outside the caching area, whatever was
evaluated before; with no_boundary_error=False it must raise every time.
"""
import sys
from cherab.core.math.caching import Caching3D

AREA = (0.0, 1.0, 0.0, 1.0, 0.0, 1.0)
RES = (0.25, 0.25, 0.25)


def trilinear(x, y, z):
    return 2.0 + x - 3.0 * y + 0.5 * z + 0.25 * x * y - 1.5 * y * z + x * y * z


def main():
    inside = (0.4, 0.6, 0.3)
    outside = (1.7, 0.6, 0.3)       # x beyond the caching area

    # --- direct evaluation outside the area -------------------------------------------
    cached = Caching3D(trilinear, AREA, RES, no_boundary_error=True)
    fresh = Caching3D(trilinear, AREA, RES, no_boundary_error=True)

    history = [inside, outside, outside, inside, outside, outside]
    for step, p in enumerate(history):
        got = cached(*p)
        want = trilinear(*p)
        assert abs(got - want) < 1e-9, \
            "step {} of the history: cached{} = {} but the wrapped function gives {} " \
            "(a fresh cache gives {}): result depends on what was evaluated before".format(step, p, got, want, fresh(*p))

    # --- raising outside the area -----------------------------------------------------
    strict = Caching3D(trilinear, AREA, RES)
    assert abs(strict(*inside) - trilinear(*inside)) < 1e-9
    for attempt in range(3):
        try:
            value = strict(*outside)
        except ValueError:
            continue
        raise AssertionError("attempt {}: evaluation outside the caching area returned {} instead of raising ValueError"
                             .format(attempt, value))
    assert abs(strict(*inside) - trilinear(*inside)) < 1e-9
    print("ok")


if __name__ == "__main__":
    main()
    sys.exit(0)
