"""C17 demo 3: volume = 2 pi * centroid radius * area for any simple polygon, at any
size, and a grid's total volume is the sum of its voxels' volumes.

A coarse grid is compared with the same region meshed much more finely (cells a few
micrometres across, e.g. a grid given for a thin deposition layer): both must report
2 pi R_c A for every cell and the region's volume as their total, and scaling a cell
by s must scale its volume by s**3 (for cells far from the axis: R_c scales too).
"""
import sys
import numpy as np
from cherab.tools.inversions import AxisymmetricVoxel, ToroidalVoxelGrid


def rect(r0, r1, z0, z1):
    return [(r0, z0), (r0, z1), (r1, z1), (r1, z0)]


failures = []

# 1. single cells of decreasing size: volume must equal 2 pi R_c A of the reported centroid/area
shape = np.array([(0.0, 0.0), (0.2, 1.0), (1.0, 0.7), (0.6, 0.4), (0.9, -0.1)])   # concave pentagon
for size in (1.0, 1e-2, 1e-4, 2e-5, 5e-6, 1e-6):
    poly = shape * size + np.array([1.5, -0.3])
    for verts in (poly, poly[::-1], np.roll(poly, 2, axis=0)):
        voxel = AxisymmetricVoxel(verts)
        area = voxel.cross_sectional_area
        pappus = 2 * np.pi * voxel.cross_section_centroid.x * area
        if not np.isclose(voxel.volume, pappus, rtol=1e-9, atol=0):
            failures.append("cell of size %g m (area %.3e m^2): volume=%r but 2*pi*Rc*A=%r"
                            % (size, area, voxel.volume, pappus))
            break

# 2. a thin layer R in [2, 2.0001], z in [0, 0.0002] meshed coarsely and finely
r0, r1, z0, z1 = 2.0, 2.0001, 0.0, 0.0002
exact = np.pi * (r1**2 - r0**2) * (z1 - z0)
for nr, nz in ((1, 1), (2, 4), (10, 20), (20, 40)):
    rs = np.linspace(r0, r1, nr + 1)
    zs = np.linspace(z0, z1, nz + 1)
    cells = [rect(rs[i], rs[i + 1], zs[j], zs[j + 1]) for i in range(nr) for j in range(nz)]
    grid = ToroidalVoxelGrid(cells)
    total = grid.total_volume
    if not np.isclose(total, exact, rtol=1e-6, atol=0):
        failures.append("%dx%d grid (cell area %.2e m^2): total_volume=%r, region volume=%r"
                        % (nr, nz, (r1 - r0) * (z1 - z0) / (nr * nz), total, exact))

if failures:
    print("FAIL: voxel volume is not 2*pi*Rc*A / grid total volume is wrong")
    for f in failures:
        print("  " + f)
    sys.exit(1)
print("OK")
