"""
C19 demo 2: equality and hashing of every registered species agree, so species - and the spectral
lines built from them - can be used as dictionary keys; the tabulated data are self-consistent.
"""
import sys
from cherab.core.atomic import elements as E
from cherab.core.atomic import Line
from cherab.core.atomic.elements import Element, Isotope, lookup_element, lookup_isotope

species = [getattr(E, n) for n in dir(E)]
elems = sorted((s for s in species if type(s) is Element), key=lambda e: e.atomic_number)
isos = sorted((s for s in species if type(s) is Isotope), key=lambda i: (i.atomic_number, i.mass_number))
everything = elems + isos
assert len(elems) > 50 and len(isos) > 200, "registry unexpectedly small"

try:
    for s in everything:
        # a species equals itself / the object the registry returns for its name
        found = lookup_isotope(s.name) if type(s) is Isotope else lookup_element(s.name)
        assert found is s, "look-up of %r by name returned %r" % (s, found)
        assert found == s and not (found != s), "%r does not compare equal to itself" % (s,)
        assert hash(found) == hash(s), "%r: unstable hash" % (s,)

        # ... so a line of that species, built twice, addresses the same dictionary slot
        rates = {Line(s, 0, (2, 1)): 1.0}
        again = Line(found, 0, (2, 1))
        assert again == next(iter(rates)), "two identical lines of %r compare unequal" % (s,)
        assert again in rates, "a line of %r is not found in a dict keyed by an identical line" % (s,)

    # distinct species compare unequal, and a dict keyed by species keeps them all apart
    table = {s: k for k, s in enumerate(everything)}
    assert len(table) == len(everything), "some species collapse onto one dictionary key"
    for k, s in enumerate(everything):
        assert table[s] == k, "dictionary keyed by species returns the wrong entry for %r" % (s,)
    for a in elems:
        for b in elems:
            assert (a == b) == (a is b) and (a != b) == (a is not b), "%r vs %r: equality broken" % (a, b)

    # data: isotopes agree with their element, weights are sane numbers
    for e in elems:
        assert e.atomic_weight == e.atomic_weight and e.atomic_weight >= e.atomic_number, \
            "%r has no usable atomic weight (%r)" % (e, e.atomic_weight)
    for i in isos:
        assert i.atomic_number == i.element.atomic_number, "%r: atomic number differs from its element" % (i,)
        assert i.mass_number >= i.atomic_number, "%r: mass number below atomic number" % (i,)
        assert abs(i.atomic_weight - i.mass_number) < 0.1, "%r: atomic weight far from mass number" % (i,)
        assert i.element == lookup_element(i.atomic_number), "%r: parent element is not the registered one" % (i,)
except AssertionError as exc:
    print("C19 VIOLATED:", exc)
    sys.exit(1)

print("ok: %d elements and %d isotopes are consistent dictionary keys" % (len(elems), len(isos)))
