"""
C18 demo 3: the generated laser segments tile the laser length exactly once - for every laser.

One profile object is used by two Laser nodes (reuse of one object in two containers) and generate_geometry() is also
called directly.  Every laser must own a complete set of segments, attached to it in the scenegraph, that tiles
[0, laser_length]; this must stay true after the profile parameters are changed, exactly as for a freshly built laser.
"""
from raysect.core import Point3D
from raysect.optical import World

from cherab.core.laser import Laser
from cherab.core.model.laser import (UniformEnergyDensity, ConstantBivariateGaussian, TrivariateGaussian,
                                     GaussianBeamAxisymmetric)


def attached_tiles(laser):
    """[(z_start, z_end, radius)] of the primitives that really are children of the laser node."""
    tiles = []
    for seg in laser.children:
        z0 = Point3D(0, 0, 0).transform(seg.transform).z
        tiles.append((z0, z0 + seg.height, seg.radius))
    return sorted(tiles)


def check(laser, length, radius, what):
    tiles = attached_tiles(laser)
    assert tiles, "{}: laser '{}' has no segments attached in the scenegraph".format(what, laser.name)
    assert len(tiles) == len(laser.get_geometry()), \
        "{}: laser '{}' has {} attached segments but reports {}".format(what, laser.name, len(tiles), len(laser.get_geometry()))
    for seg in laser.get_geometry():
        assert seg.parent is laser, "{}: segment reported by laser '{}' belongs to {}".format(what, laser.name, seg.parent)
    z = 0.
    for z0, z1, r in tiles:
        assert abs(z0 - z) < 1e-12, "{}: laser '{}' gap/overlap at z={}: {}".format(what, laser.name, z, tiles)
        assert r == radius, "{}: wrong segment radius".format(what)
        z = z1
    assert abs(z - length) < 1e-12, "{}: laser '{}' segments end at {} instead of {}".format(what, laser.name, z, length)


for cls in (UniformEnergyDensity, ConstantBivariateGaussian, TrivariateGaussian, GaussianBeamAxisymmetric):
    name = cls.__name__
    world = World()
    profile = cls(laser_length=1., laser_radius=0.05)

    first = Laser(parent=world, name="first")
    first.laser_profile = profile
    check(first, 1., 0.05, name + ": single laser")

    second = Laser(parent=world, name="second")
    second.laser_profile = profile
    check(second, 1., 0.05, name + ": second laser")
    check(first, 1., 0.05, name + ": first laser after the profile was given to a second laser")

    profile.laser_length = 0.3
    profile.laser_radius = 0.02
    for laser in (first, second):
        check(laser, 0.3, 0.02, name + ": after changing length and radius")

    profile.laser_length = 1.
    for laser in (first, second):
        check(laser, 1., 0.02, name + ": after setting the length back")

    # a direct call hands out primitives the caller may use freely; that must not disturb the lasers
    for seg in profile.generate_geometry():
        seg.parent = World()
    for laser in (first, second):
        check(laser, 1., 0.02, name + ": after a direct generate_geometry() call")

print("OK")
