"""
C01 demo 3: an attenuator that is taken off a beam and later put back (A -> B -> A) must keep
following changes of that beam: beam density after a later change of the beam energy / position
must equal that of a beam built from scratch in the final configuration.
"""
import sys
import math
from scipy.constants import atomic_mass, electron_mass

from raysect.core import Vector3D, Point3D, translate, rotate_basis
from raysect.optical import World
from raysect.primitive import Box

from cherab.core import Beam, Plasma, Species, Maxwellian
from cherab.core.atomic import AtomicData, BeamStoppingRate, deuterium
from cherab.core.model import SingleRayAttenuator


class ConstantBeamStoppingRate(BeamStoppingRate):
    def __init__(self, value):
        self.value = value

    def evaluate(self, energy, density, temperature):
        return self.value


class MockAtomicData(AtomicData):
    def beam_stopping_rate(self, beam_ion, plasma_ion, charge):
        return ConstantBeamStoppingRate(3.e-13)


def ion_density(x, y, z):
    return 4.e19 * math.exp(-((x - 1.0) / 0.25) ** 2 - (y / 0.5) ** 2)


def beam_transform(y):
    return translate(-0.35, y, 0) * rotate_basis(Vector3D(1, 0, 0), Vector3D(0, 0, 1))


def build(energy, y):
    world = World()
    plasma = Plasma(parent=world)
    plasma.geometry = Box(Point3D(0, -1, -1), Point3D(3, 1, 1))
    plasma.electron_distribution = Maxwellian(ion_density, 1.e3, Vector3D(0, 0, 0), electron_mass)
    plasma.b_field = Vector3D(0, 0, 0)
    plasma.composition = [Species(deuterium, 1, Maxwellian(ion_density, 1.e3, Vector3D(0, 0, 0),
                                                           deuterium.atomic_weight * atomic_mass))]
    atomic_data = MockAtomicData()
    plasma.atomic_data = atomic_data

    beam = Beam(parent=world, transform=beam_transform(y))
    beam.atomic_data = atomic_data
    beam.plasma = plasma
    beam.attenuator = SingleRayAttenuator(step=0.01)
    beam.energy = energy
    beam.power = 1e6
    beam.temperature = 10
    beam.element = deuterium
    beam.sigma = 0.05
    beam.divergence_x = 0.5
    beam.divergence_y = 0.5
    beam.length = 3.
    return world, beam


POINTS = [(0, 0, 1.0), (0.01, 0.02, 1.6), (0, 0, 2.5)]


def sample(beam):
    return [beam.density(*p) for p in POINTS]


def compare(label, mutated, reference):
    bad = [(p, m, r) for p, m, r in zip(POINTS, mutated, reference) if abs(m - r) > 1e-9 * abs(r)]
    for p, m, r in bad:
        print("FAIL [{}]: beam.density{} = {:.6e}, beam built from scratch gives {:.6e}".format(label, p, m, r))
    return not bad


E0, E1 = 50000., 20000.

world, beam = build(E0, 0.0)
first = beam.attenuator
sample(beam)

# swap the attenuator for another one, then put the original one back
beam.attenuator = SingleRayAttenuator(step=0.02)
sample(beam)
beam.attenuator = first
before = sample(beam)

ok = compare("after A -> B -> A", before, sample(build(E0, 0.0)[1]))

# now change the beam: the re-attached attenuator has to follow
beam.energy = E1
ok &= compare("A -> B -> A, then energy change", sample(beam), sample(build(E1, 0.0)[1]))

beam.transform = beam_transform(0.3)
ok &= compare("A -> B -> A, then energy change and beam moved", sample(beam), sample(build(E1, 0.3)[1]))

if not ok:
    sys.exit(1)
print("OK")
