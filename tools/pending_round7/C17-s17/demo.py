"""C17 demo 2: the emissivity sampled over a voxel is an unbiased estimate of the
area-mean over ITS OWN cross-section, whatever else has been built before.

An arrow-head (concave quadrilateral) voxel is built and sampled, then an ordinary
rectangular voxel is built, then the very same arrow-head is built again (all four
cyclic rotations, both orientations).  Every sample must fall inside the arrow-head:
a function that is 1 deep inside the notch (outside the cell) and 0 elsewhere must
average to exactly 0, and the mean of z must agree with the centroid height.
"""
import sys
from raysect.core.math.random import seed
from cherab.tools.inversions import AxisymmetricVoxel

# arrow-head: triangle (2,0)-(3,3)-(4,0) with the notch (2,0)-(3,1)-(4,0) cut out
ARROW = [(2.0, 0.0), (3.0, 1.0), (4.0, 0.0), (3.0, 3.0)]
TRUE_AREA = 2.0
TRUE_CENTROID_Z = 4.0 / 3.0
NSAMPLES = 20000


def in_notch(r, phi, z):
    # strictly inside the notch, 0.05 away from the cell's boundary
    return 1.0 if 0.0 < z < (1.0 - abs(r - 3.0)) - 0.05 else 0.0


def height(r, phi, z):
    return z


def check(tag, vertices, failures):
    voxel = AxisymmetricVoxel(vertices)
    if abs(voxel.cross_sectional_area - TRUE_AREA) > 1e-12:
        failures.append("%s: area %r != %r" % (tag, voxel.cross_sectional_area, TRUE_AREA))
    leak = voxel.emissivity_from_function(in_notch, NSAMPLES)
    if leak != 0.0:
        failures.append("%s: %.1f%% of the samples fell outside the cell (in the notch)"
                        % (tag, 100 * leak))
    zmean = voxel.emissivity_from_function(height, NSAMPLES)
    if abs(zmean - TRUE_CENTROID_Z) > 0.05:
        failures.append("%s: sampled mean of z = %.4f, area-mean is %.4f"
                        % (tag, zmean, TRUE_CENTROID_Z))
    const = voxel.emissivity_from_function(lambda r, phi, z: 7.5, 100)
    if const != 7.5:
        failures.append("%s: constant emissivity %r != 7.5" % (tag, const))


seed(20240917)
failures = []

# 1. the concave cell on its own
for k in range(4):
    rot = ARROW[k:] + ARROW[:k]
    check("fresh, rotation %d" % k, rot, failures)
    check("fresh, rotation %d reversed" % k, rot[::-1], failures)

# 2. an ordinary rectangular cell is created (and sampled) in between
rect = AxisymmetricVoxel([(1.0, -1.0), (1.0, 1.0), (2.0, 1.0), (2.0, -1.0)])
rect.emissivity_from_function(height, 100)

# 3. the same concave cell again
for k in range(4):
    rot = ARROW[k:] + ARROW[:k]
    check("after a rectangular voxel, rotation %d" % k, rot, failures)
    check("after a rectangular voxel, rotation %d reversed" % k, rot[::-1], failures)

if failures:
    print("FAIL: emissivity sampling of a concave voxel is biased")
    for f in failures:
        print("  " + f)
    sys.exit(1)
print("OK")
