"""
C04 demo 2: the beam density must follow the plasma the beam is attached to,
also after a REJECTED attempt to replace the plasma composition.

plasma.composition.set() is given a list with an invalid entry and raises TypeError.
Whatever the composition is afterwards, the beam density sampled next must be
P/(E m)/v * G(0,0,z) * exp(-int S/v) with S built from the species the plasma now reports.
"""
import sys
import numpy as np
from scipy.constants import atomic_mass, electron_mass

from raysect.core import World, Vector3D, translate
from cherab.core import Beam, Plasma, Species, Maxwellian
from cherab.core.atomic import AtomicData, BeamStoppingRate, deuterium, carbon
from cherab.core.model import SingleRayAttenuator
from cherab.core.utility import EvAmuToMS, EvToJ

RATE = 1.e-13


class ConstantRate(BeamStoppingRate):
    def __init__(self, value):
        self.value = value

    def evaluate(self, energy, density, temperature):
        return self.value


class MockAtomicData(AtomicData):
    def beam_stopping_rate(self, beam_ion, plasma_ion, charge):
        return ConstantRate(RATE)


def maxwellian(element, density, temperature=1.e3):
    return Maxwellian(density, temperature, Vector3D(0, 0, 0), element.atomic_weight * atomic_mass)


def expected_on_axis(beam, plasma, z):
    """Analytic on-axis density for a uniform plasma and constant stopping rates."""
    speed = EvAmuToMS.to(beam.energy)
    rate = beam.power / EvToJ.to(beam.energy * beam.element.atomic_weight)
    s = sum(sp.charge * sp.distribution.density(0, 0, 0) * RATE for sp in plasma.composition)
    sx = np.sqrt(beam.sigma**2 + (z * np.tan(np.deg2rad(beam.divergence_x)))**2)
    sy = np.sqrt(beam.sigma**2 + (z * np.tan(np.deg2rad(beam.divergence_y)))**2)
    return rate / speed / (2 * np.pi * sx * sy) * np.exp(-z * s / speed)


def describe(plasma):
    return sorted((sp.element.name, sp.charge, sp.distribution.density(0, 0, 0)) for sp in plasma.composition)


world = World()
adata = MockAtomicData()

plasma = Plasma(parent=world)
plasma.atomic_data = adata
plasma.electron_distribution = Maxwellian(1.e19, 1.e3, Vector3D(0, 0, 0), electron_mass)
plasma.composition = [Species(deuterium, 1, maxwellian(deuterium, 1.e19)),
                      Species(carbon, 6, maxwellian(carbon, 3.e17))]

beam = Beam(parent=world, transform=translate(0.2, 0, 0))
beam.atomic_data = adata
beam.plasma = plasma
beam.attenuator = SingleRayAttenuator(step=0.01)
beam.energy = 50000
beam.power = 1.e6
beam.element = deuterium
beam.sigma = 0.05
beam.divergence_x = 0.5
beam.divergence_y = 1.0
beam.length = 3.0

zs = [0.5, 1.5, 2.9]

for z in zs:
    got, ref = beam.density(0, 0, z), expected_on_axis(beam, plasma, z)
    assert abs(got / ref - 1) < 1e-9, "initial plasma: beam density %g != %g at z=%g" % (got, ref, z)

# a faulty update: the second entry is a (element, charge, distribution) tuple instead of a Species
new_species = [Species(deuterium, 1, maxwellian(deuterium, 5.e19)),
               (carbon, 6, maxwellian(carbon, 1.e17))]
try:
    plasma.composition = new_species
except TypeError:
    pass
else:
    raise AssertionError("composition.set() accepted a non-Species entry")

for z in zs:
    got, ref = beam.density(0, 0, z), expected_on_axis(beam, plasma, z)
    assert abs(got / ref - 1) < 1e-9, \
        "after a rejected composition update the plasma reports %s but the beam density at z=%g is %g, " \
        "expected %g for that plasma: the attenuation does not follow the plasma" % (describe(plasma), z, got, ref)

# same through composition.set() directly, error in the first position this time
try:
    plasma.composition.set([None, Species(deuterium, 1, maxwellian(deuterium, 7.e19))])
except TypeError:
    pass
for z in zs:
    got, ref = beam.density(0, 0, z), expected_on_axis(beam, plasma, z)
    assert abs(got / ref - 1) < 1e-9, \
        "after a rejected composition.set() the plasma reports %s but the beam density at z=%g is %g, " \
        "expected %g" % (describe(plasma), z, got, ref)

print("OK")
sys.exit(0)
