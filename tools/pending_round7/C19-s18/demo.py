"""
C19 demo 3: isotopes are found by element + mass number for every way of naming the element, and a
request the registry rejects (ValueError) must not influence the answers to the requests that follow.
"""
import sys
from cherab.core.atomic import elements as E
from cherab.core.atomic.elements import Element, Isotope, lookup_element, lookup_isotope

species = [getattr(E, n) for n in dir(E)]
isos = sorted((s for s in species if type(s) is Isotope), key=lambda i: (i.atomic_number, i.mass_number))
assert len(isos) > 200, "registry unexpectedly small"


def tolerant(v, number, expected):
    """A loosely spelled request: may be refused with ValueError, but must never give another species."""
    try:
        got = lookup_isotope(v, number=number)
    except ValueError:
        return
    assert got is expected, "lookup_isotope(%r, number=%r) returned %r, expected %r" % (v, number, got, expected)


def strict(v, number, expected):
    try:
        got = lookup_isotope(v, number=number)
    except ValueError as exc:
        raise AssertionError("lookup_isotope(%r, number=%r) failed for a valid identifier: %s" % (v, number, exc))
    assert got is expected, "lookup_isotope(%r, number=%r) returned %r, expected %r" % (v, number, got, expected)


try:
    for i in isos:
        el, z, a = i.element, i.atomic_number, i.mass_number

        # loose spellings (atomic number read from a float column, padded name, unknown name)
        tolerant('no-such-element', a, i)
        tolerant(' ' + el.name, a, i)
        tolerant(float(z), a, i)

        # the proper identifiers of the element, each in several letter cases
        for v in (z, str(z), el, el.name, el.name.upper(), el.symbol, el.symbol.lower(), el.symbol.upper()):
            strict(v, a, i)
            strict(v, str(a), i)

        # and once more the atomic number after a refused request
        tolerant(float(z), a, i)
        strict(z, a, i)
        assert lookup_isotope(i.name) is i and lookup_isotope(i.symbol) is i
        assert lookup_element(z) is el
except AssertionError as exc:
    print("C19 VIOLATED:", exc)
    sys.exit(1)

print("ok: %d isotopes found by element + mass number, independent of earlier refused requests" % len(isos))
