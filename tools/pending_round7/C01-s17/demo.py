"""
C01 demo 2: changing the sampling step of the attached SingleRayAttenuator after the beam density
has been sampled must give the same beam density as a beam built from scratch with that step.
"""
import sys
import math
from scipy.constants import atomic_mass, electron_mass

from raysect.core import Vector3D, translate, rotate_basis
from raysect.optical import World
from raysect.primitive import Box
from raysect.core import Point3D

from cherab.core import Beam, Plasma, Species, Maxwellian
from cherab.core.atomic import AtomicData, BeamStoppingRate, deuterium
from cherab.core.model import SingleRayAttenuator


class ConstantBeamStoppingRate(BeamStoppingRate):
    def __init__(self, value):
        self.value = value

    def evaluate(self, energy, density, temperature):
        return self.value


class MockAtomicData(AtomicData):
    def beam_stopping_rate(self, beam_ion, plasma_ion, charge):
        return ConstantBeamStoppingRate(3.e-13)


def ion_density(x, y, z):
    # peaked plasma: the attenuation integral depends on the sampling step
    return 4.e19 * math.exp(-((x - 1.0) / 0.25) ** 2)


def build(step):
    world = World()
    plasma = Plasma(parent=world)
    plasma.geometry = Box(Point3D(0, -1, -1), Point3D(3, 1, 1))
    plasma.electron_distribution = Maxwellian(ion_density, 1.e3, Vector3D(0, 0, 0), electron_mass)
    plasma.b_field = Vector3D(0, 0, 0)
    plasma.composition = [Species(deuterium, 1, Maxwellian(ion_density, 1.e3, Vector3D(0, 0, 0),
                                                           deuterium.atomic_weight * atomic_mass))]
    atomic_data = MockAtomicData()
    plasma.atomic_data = atomic_data

    # beam axis (+z of the beam) along +x of the world, starting at x = -0.35
    beam = Beam(parent=world, transform=translate(-0.35, 0, 0) * rotate_basis(Vector3D(1, 0, 0), Vector3D(0, 0, 1)))
    beam.atomic_data = atomic_data
    beam.plasma = plasma
    beam.attenuator = SingleRayAttenuator(step=step)
    beam.energy = 50000
    beam.power = 1e6
    beam.temperature = 10
    beam.element = deuterium
    beam.sigma = 0.05
    beam.divergence_x = 0.5
    beam.divergence_y = 0.5
    beam.length = 3.
    return world, beam


POINTS = [(0, 0, 1.0), (0.01, 0.02, 1.6), (0, 0, 2.5)]


def sample(beam):
    return [beam.density(*p) for p in POINTS]


COARSE, FINE = 0.75, 0.01

world, beam = build(COARSE)
coarse = sample(beam)                 # fills the attenuation cache

beam.attenuator.step = FINE           # supported change of the attenuator
mutated = sample(beam)

world_ref, beam_ref = build(FINE)
reference = sample(beam_ref)

# sanity: the step does matter in this scene
assert any(abs(c - r) > 1e-3 * r for c, r in zip(coarse, reference)), "demo scene insensitive to step"

bad = [(p, m, r) for p, m, r in zip(POINTS, mutated, reference) if abs(m - r) > 1e-9 * abs(r)]
if bad:
    for p, m, r in bad:
        print("FAIL: beam.density{} = {:.6e} after attenuator.step change, fresh beam with the same step gives {:.6e}".format(p, m, r))
    print("      (values before the step change were {})".format(coarse))
    sys.exit(1)
print("OK")
