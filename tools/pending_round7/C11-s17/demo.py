import numpy as np


def ref_sart(W, b, x0, max_iterations, relaxation=1.0, conv_tol=1e-4, L=None, beta=0.0):
    """Literal numpy transcription of the documented (constrained) SART update rule."""
    W = np.asarray(W, dtype=float)
    b = np.asarray(b, dtype=float)
    x = np.array(x0, dtype=float)
    dens = W.sum(axis=0)
    rl = W.sum(axis=1)
    conv = []
    for k in range(max_iterations):
        r = b - W @ x
        wr = np.zeros_like(r)
        ok = rl != 0
        wr[ok] = r[ok] / rl[ok]
        back = W.T @ wr
        upd = np.zeros_like(x)
        seen = dens > 0
        upd[seen] = relaxation * back[seen] / dens[seen]
        xn = x + upd
        if L is not None:
            xn = xn - beta * (L @ x)
        xn = np.maximum(xn, 0.0)
        yh = W @ xn
        conv.append((b @ b - yh @ yh) / (b @ b))
        x = xn
        if k > 0 and abs(conv[k] - conv[k - 1]) < conv_tol:
            break
    return x, conv


def chain_laplacian(n):
    L = np.zeros((n, n))
    for i in range(n):
        nb = [j for j in (i - 1, i + 1) if 0 <= j < n]
        L[i, nb] = -1
        L[i, i] = len(nb)
    return L


def main():
    from cherab.tools.inversions import invert_sart, invert_constrained_sart

    rng = np.random.default_rng(5)
    m, n = 16, 12
    W = rng.random((m, n)) * (rng.random((m, n)) < 0.5)
    W[7, :] = 0.0      # detector that sees nothing
    W[:, 4] = 0.0      # voxel seen by nobody
    L = chain_laplacian(n)

    # a narrow emission peak next to dark voxels, with noisy (inconsistent) measurements
    x_true = np.zeros(n)
    x_true[5:7] = 4.0
    b = np.abs(W @ x_true + 0.3 * rng.standard_normal(m))
    b[7] = 0.0

    x0 = np.zeros(n)
    x0[2:9] = [0.1, 3.0, 0.2, 5.0, 0.1, 4.0, 0.3]      # spiky, non-negative initial guess

    for relaxation in (0.5, 1.0, 1.6):
        for iters in (1, 2, 5, 12):
            x, conv = invert_sart(W, b, initial_guess=x0.copy(), max_iterations=iters, relaxation=relaxation,
                                  conv_tol=0.0)
            xr, convr = ref_sart(W, b, x0, iters, relaxation, 0.0)
            assert np.all(np.asarray(x) >= 0), "negative SART solution"
            assert np.allclose(x, xr, rtol=1e-9, atol=1e-12), (
                "invert_sart(relaxation=%g, max_iterations=%d): result is not the iterate of the documented rule\n"
                " got %s\n ref %s" % (relaxation, iters, np.asarray(x), xr))

            for beta in (0.0, 0.05, 0.3):
                x, conv = invert_constrained_sart(W, L, b, initial_guess=x0.copy(), max_iterations=iters,
                                                  relaxation=relaxation, beta_laplace=beta, conv_tol=0.0)
                xr, convr = ref_sart(W, b, x0, iters, relaxation, 0.0, L=L, beta=beta)
                assert np.all(np.asarray(x) >= 0), "negative constrained SART solution"
                assert np.allclose(x, xr, rtol=1e-9, atol=1e-12), (
                    "invert_constrained_sart(relaxation=%g, beta_laplace=%g, max_iterations=%d): result is not "
                    "max(0, f_sart(x) - beta*L x) of the documented rule\n got %s\n ref %s"
                    % (relaxation, beta, iters, np.asarray(x), xr))
                assert np.allclose(conv, convr, rtol=1e-9, atol=1e-12), "convergence history differs from the rule"

    # an exact non-negative solution that is harmonic for the Laplacian is a fixed point
    xs = np.full(n, 1.5)
    bs = W @ xs
    x, _ = invert_constrained_sart(W, L, bs, initial_guess=xs.copy(), max_iterations=5, beta_laplace=0.2, conv_tol=0.0)
    assert np.allclose(x, xs, rtol=1e-12), "exact solution is not a fixed point"
    print("ok")


if __name__ == "__main__":
    main()
