import numpy as np


def ref_sart(W, b, x0, max_iterations, relaxation=1.0, conv_tol=1e-4, L=None, beta=0.0):
    """Literal numpy transcription of the documented (constrained) SART update rule."""
    W = np.asarray(W, dtype=float)
    b = np.asarray(b, dtype=float)
    x = np.array(x0, dtype=float)
    dens = W.sum(axis=0)
    rl = W.sum(axis=1)
    conv = []
    for k in range(max_iterations):
        r = b - W @ x
        wr = np.zeros_like(r)
        ok = rl != 0
        wr[ok] = r[ok] / rl[ok]
        back = W.T @ wr
        upd = np.zeros_like(x)
        seen = dens > 0
        upd[seen] = relaxation * back[seen] / dens[seen]
        xn = x + upd
        if L is not None:
            xn = xn - beta * (L @ x)
        xn = np.maximum(xn, 0.0)
        yh = W @ xn
        conv.append((b @ b - yh @ yh) / (b @ b))
        x = xn
        if k > 0 and abs(conv[k] - conv[k - 1]) < conv_tol:
            break
    return x, conv


def main():
    from cherab.tools.inversions import invert_sart, invert_constrained_sart

    rng = np.random.default_rng(11)
    m, n = 14, 9
    W = rng.random((m, n)) * (rng.random((m, n)) < 0.6)
    W[3, :] = 0.0      # detector that sees nothing
    W[:, 5] = 0.0      # voxel seen by nobody
    x_true = rng.random(n) * 3
    b = W @ x_true

    L = 2 * np.identity(n) - np.eye(n, k=1) - np.eye(n, k=-1)

    # constant seeds, including the boundary of the admissible (non-negative) range
    for seed in (None, 1.0, 2, 0.25, 0.0, 0):
        x0 = np.full(n, np.exp(-1) if seed is None else float(seed))
        for iters in (1, 3, 7):
            x, conv = invert_sart(W, b, initial_guess=seed, max_iterations=iters, relaxation=0.8, conv_tol=0.0)
            xr, convr = ref_sart(W, b, x0, iters, 0.8, 0.0)
            assert np.all(np.asarray(x) >= 0), "negative SART solution"
            assert np.allclose(x, xr, rtol=1e-9, atol=1e-12), (
                "invert_sart(initial_guess=%r, max_iterations=%d) is not the iterate of the documented update rule "
                "started from that guess:\n got %s\n ref %s" % (seed, iters, np.asarray(x), xr))
            assert np.allclose(conv, convr, rtol=1e-9, atol=1e-12), "convergence history differs"

            x, conv = invert_constrained_sart(W, L, b, initial_guess=seed, max_iterations=iters, relaxation=0.8,
                                              beta_laplace=0.02, conv_tol=0.0)
            xr, convr = ref_sart(W, b, x0, iters, 0.8, 0.0, L=L, beta=0.02)
            assert np.all(np.asarray(x) >= 0), "negative constrained SART solution"
            assert np.allclose(x, xr, rtol=1e-9, atol=1e-12), (
                "invert_constrained_sart(initial_guess=%r, max_iterations=%d) is not the iterate of the documented "
                "update rule started from that guess:\n got %s\n ref %s" % (seed, iters, np.asarray(x), xr))

    # array seed
    x0 = rng.random(n)
    x, _ = invert_sart(W, b, initial_guess=x0.copy(), max_iterations=4, conv_tol=0.0)
    xr, _ = ref_sart(W, b, x0, 4, 1.0, 0.0)
    assert np.allclose(x, xr, rtol=1e-9, atol=1e-12), "array initial guess: iterate differs from the rule"
    print("ok")


if __name__ == "__main__":
    main()
