"""
C14 demo 3 -- function bounds must only rescale internally.

A 2D profile that is exactly flat over part of the caching area (a constant
background level around a smooth bump) is cached with and without
function_boundaries.  Both caches must agree with each other and with the
wrapped function in the flat region and at sampling nodes.
"""
import sys
import numpy as np
from cherab.core.math.caching import Caching2D

AREA = (-2.0, 2.0, -2.0, 2.0)
RES = (0.1, 0.1)
BACKGROUND = 3.0


def profile(x, y):
    # smooth (C2) compactly supported bump on a constant background
    r2 = x * x + y * y
    if r2 >= 1.0:
        return BACKGROUND
    return BACKGROUND + 2.0 * (1.0 - r2) ** 3


def main():
    plain = Caching2D(profile, AREA, RES)
    bounded = Caching2D(profile, AREA, RES, function_boundaries=(1.0, 5.0))
    equal_bounds = Caching2D(lambda x, y: BACKGROUND, AREA, RES, function_boundaries=(2.0, 4.0))

    rng = np.random.default_rng(1234)
    pts = [(-1.63, 1.48), (1.55, -1.71), (0.2, 0.1), (0.7, -0.6), (-1.9, -1.9), (1.05, 1.05)]
    pts += [tuple(p) for p in rng.uniform(-2, 2, size=(200, 2))]

    for (x, y) in pts:
        want = profile(x, y)
        a = plain(x, y)
        b = bounded(x, y)
        assert abs(a - want) < 0.05, "unbounded cache off at ({}, {}): {} vs {}".format(x, y, a, want)
        assert abs(b - a) < 1e-9, \
            "supplying function_boundaries changed the result at ({}, {}): {} with bounds, {} without " \
            "(wrapped function: {})".format(x, y, b, a, want)
        c = equal_bounds(x, y)
        assert abs(c - BACKGROUND) < 1e-9, \
            "constant function cached with function_boundaries gives {} at ({}, {}) instead of {}".format(c, x, y, BACKGROUND)
    print("ok")


if __name__ == "__main__":
    main()
    sys.exit(0)
