"""
C04 demo 3: beam density in a non-uniform plasma must follow exp(-int_0^z S/v dz') for the
attenuator step that is currently configured.

The plasma ion density has a narrow Gaussian bump on the beam axis.  The attenuator is first used
with a coarse step (0.5 m), then the step is refined to 2 mm through the public `step` property.
After the refinement the density must agree with the analytic attenuation integral to the accuracy
of the fine step.  The beam has no emission models attached (it is only sampled).
"""
import sys
import numpy as np
from scipy.special import erf
from scipy.constants import atomic_mass, electron_mass

from raysect.core import World, Vector3D, translate
from cherab.core import Beam, Plasma, Species, Maxwellian
from cherab.core.atomic import AtomicData, BeamStoppingRate, deuterium
from cherab.core.model import SingleRayAttenuator
from cherab.core.utility import EvAmuToMS, EvToJ

RATE = 1.e-13
N0, Z0, W = 4.e19, 1.3, 0.12


class ConstantRate(BeamStoppingRate):
    def __init__(self, value):
        self.value = value

    def evaluate(self, energy, density, temperature):
        return self.value


class MockAtomicData(AtomicData):
    def beam_stopping_rate(self, beam_ion, plasma_ion, charge):
        return ConstantRate(RATE)


def ion_density(x, y, z):
    return N0 * np.exp(-((z - Z0) / W)**2)


def ion_density_integral(z):
    return N0 * W * 0.5 * np.sqrt(np.pi) * (erf((z - Z0) / W) + erf(Z0 / W))


world = World()
adata = MockAtomicData()
plasma = Plasma(parent=world)
plasma.atomic_data = adata
plasma.electron_distribution = Maxwellian(ion_density, 1.e3, Vector3D(0, 0, 0), electron_mass)
plasma.composition = [Species(deuterium, 1, Maxwellian(ion_density, 1.e3, Vector3D(0, 0, 0),
                                                       deuterium.atomic_weight * atomic_mass))]


def make_beam(step):
    beam = Beam(parent=world, transform=translate(0.3, -0.1, 0))
    beam.atomic_data = adata
    beam.plasma = plasma
    beam.attenuator = SingleRayAttenuator(step=step)
    beam.energy = 50000
    beam.power = 1.e6
    beam.element = deuterium
    beam.sigma = 0.05
    beam.divergence_x = 0.5
    beam.divergence_y = 1.0
    beam.length = 3.0
    return beam


def expected_on_axis(beam, z):
    speed = EvAmuToMS.to(beam.energy)
    rate = beam.power / EvToJ.to(beam.energy * beam.element.atomic_weight)
    sx = np.sqrt(beam.sigma**2 + (z * np.tan(np.deg2rad(beam.divergence_x)))**2)
    sy = np.sqrt(beam.sigma**2 + (z * np.tan(np.deg2rad(beam.divergence_y)))**2)
    return rate / speed / (2 * np.pi * sx * sy) * np.exp(-RATE * ion_density_integral(z) / speed)


zs = [1.0, 1.3, 1.6, 2.0, 2.9]

# step chosen before the first density request
beam = make_beam(0.5)
beam.attenuator.step = 0.002
assert beam.attenuator.step == 0.002
for z in zs:
    got, ref = beam.density(0, 0, z), expected_on_axis(beam, z)
    assert abs(got / ref - 1) < 2e-3, "fine step from the start: density %g != %g at z=%g" % (got, ref, z)

# coarse step used first, then refined
beam = make_beam(0.5)
coarse = [beam.density(0, 0, z) for z in zs]
beam.attenuator.step = 0.002
assert beam.attenuator.step == 0.002
for z, c in zip(zs, coarse):
    got, ref = beam.density(0, 0, z), expected_on_axis(beam, z)
    assert abs(got / ref - 1) < 2e-3, \
        "attenuator step refined from 0.5 m to %g m, but the beam density at z=%g is %g (value with the coarse " \
        "step was %g), expected %g from exp(-int S/v): the attenuation was not recomputed" \
        % (beam.attenuator.step, z, got, c, ref)

# monotonic decay on axis with the refined step
vals = [beam.density(0, 0, z) for z in np.linspace(0, 3, 301)]
assert all(b <= a * (1 + 1e-12) for a, b in zip(vals, vals[1:])), "on-axis density increases with z"

print("OK")
sys.exit(0)
