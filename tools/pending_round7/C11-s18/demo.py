import numpy as np
from scipy.optimize import nnls


def check_nnls(tag, W, b, alpha, L, x, rnorm):
    """Certify x as a minimiser of |Wx-b|^2 + alpha^2 |Lx|^2 subject to x >= 0 (KKT) and check rnorm."""
    n = W.shape[1]
    if L is None:
        L = np.identity(n)
    C = np.vstack((W, alpha * L))
    d = np.concatenate((b, np.zeros(C.shape[0] - len(b))))
    x = np.asarray(x, dtype=float)
    assert x.shape == (n,), tag + ": wrong solution shape"
    assert np.all(x >= 0), tag + ": negative entries in NNLS solution"
    g = C.T @ (C @ x - d)                       # gradient of half the objective
    scale = np.abs(C.T).dot(np.abs(d)).max() + 1e-300
    assert np.all(g >= -1e-8 * scale), tag + ": KKT violated (negative gradient component): min g = %g" % g.min()
    assert np.all(np.abs(g[x > 0]) <= 1e-8 * scale), (
        tag + ": KKT violated, gradient does not vanish on the free set: max |g| = %g" % np.abs(g[x > 0]).max())
    res = np.linalg.norm(C @ x - d)
    assert abs(res - rnorm) <= 1e-8 * max(res, np.linalg.norm(d)), (
        tag + ": reported residual norm %g inconsistent with the solution (%g)" % (rnorm, res))
    xr, _ = nnls(C, d)
    obj = np.linalg.norm(C @ xr - d)
    assert res <= obj * (1 + 1e-8) + 1e-12, tag + ": objective %g above the true minimum %g" % (res, obj)


def problem(rng, m, n):
    W = rng.random((m, n)) * (rng.random((m, n)) < 0.7)
    x_true = rng.random(n) * 2
    b = W @ x_true + 0.05 * rng.standard_normal(m)
    b = np.abs(b) + 0.1
    L = 2 * np.identity(n) - np.eye(n, k=1) - np.eye(n, k=-1)
    return W, b, L


def main():
    from cherab.tools.inversions import invert_regularised_nnls

    rng = np.random.default_rng(2024)

    # a camera with many lines of sight, regularisation scan
    W1, b1, L1 = problem(rng, 40, 10)
    for alpha in (0.0, 0.01, 0.3, 2.0):
        x, rnorm = invert_regularised_nnls(W1, b1, alpha=alpha, tikhonov_matrix=L1)
        check_nnls("40x10 alpha=%g" % alpha, W1, b1, alpha, L1, x, rnorm)

    # then a smaller camera looking at the same voxel grid
    W2, b2, L2 = problem(rng, 12, 10)
    for alpha in (0.0, 0.01, 0.3, 2.0):
        x, rnorm = invert_regularised_nnls(W2, b2, alpha=alpha, tikhonov_matrix=L2)
        check_nnls("12x10 (after 40x10) alpha=%g" % alpha, W2, b2, alpha, L2, x, rnorm)

    # coarser grid, default (identity) operator, under-determined
    W3, b3, _ = problem(rng, 5, 7)
    x, rnorm = invert_regularised_nnls(W3, b3, alpha=0.05)
    check_nnls("5x7 (after 12x10)", W3, b3, 0.05, None, x, rnorm)

    # and the large one again
    x, rnorm = invert_regularised_nnls(W1, b1, alpha=0.1, tikhonov_matrix=L1)
    check_nnls("40x10 again", W1, b1, 0.1, L1, x, rnorm)
    print("ok")


if __name__ == "__main__":
    main()
