#!/bin/sh
# usage: seed_queue4.sh PROP OUTDIR  -- fifth-round seeds OUTDIR/1..3 verified as <PROP>-s13..s15 (same global lock as seed_queue.sh)
PROP="$1"; OUT="$2"; TAG=$(echo "$PROP" | tr 'a-z' 'A-Z')
exec 9>/tmp/seed/.lock
flock 9
for k in 1 2 3; do
  if [ -f "$OUT/$k/patch.diff" ] && [ -f "$OUT/$k/demo.py" ]; then
    /venv/bin/python /verif/tools/seed_verify.py "$TAG" "$OUT/$k" "$TAG-s$((k+12))"
  fi
done
