#!/venv/bin/python
"""Confirm a sub-agent's seeded change and run the property's check against it.

usage: seed_verify.py <PROP> <seed dir with patch.diff/demo.py/note.txt> <seed id> [--no-suite]

Works in a scratch worktree of /repo HEAD (/tmp/seedv, created on demand, with the built extension
modules copied in):
  1. demo.py on the clean tree must exit 0
  2. apply the patch (rebuild if Cython sources are touched); demo.py must exit non-zero
  3. the package's full test suite must still pass with the patch
  4. the check of the property is run with VERIF_REPO pointing at the patched worktree
  5. the patch is reverted (rebuild again if needed)
and writes /verif/seeded/<seed id>/{patch.diff,demo.py,meta.json}.
"""
import json
import os
import re
import shutil
import subprocess
import sys
import time

WT = os.environ.get('SEEDV_WT', '/tmp/seedv')
VERIF = '/verif'
ENV = dict(os.environ, CHERAB_ROOT=WT, PYTHONPATH='/tmp/wtsite', OMP_NUM_THREADS='1', OPENBLAS_NUM_THREADS='1', MKL_NUM_THREADS='1')


def sh(cmd, cwd=WT, env=None, timeout=3600):
    p = subprocess.run(cmd, shell=True, cwd=cwd, env=env or ENV, capture_output=True, text=True, timeout=timeout)
    return p.returncode, (p.stdout + p.stderr)


def ensure_wt():
    if not os.path.isdir('/tmp/wtsite'):
        shutil.copytree(os.path.join(VERIF, 'tools', 'wtsite'), '/tmp/wtsite')
    head = subprocess.check_output(['git', '-C', '/repo', 'rev-parse', 'HEAD'], text=True).strip()
    if os.path.isdir(WT):
        cur = subprocess.check_output(['git', '-C', WT, 'rev-parse', 'HEAD'], text=True).strip()
        dirty = subprocess.check_output(['git', '-C', WT, 'status', '--porcelain', '--untracked-files=no'], text=True).strip()
        if cur == head and not dirty:
            return
        subprocess.call(['git', '-C', '/repo', 'worktree', 'remove', '--force', WT])
    subprocess.check_call([os.path.join(VERIF, 'tools', 'mkworktree.sh'), WT])


def build():
    rc, out = sh('/venv/bin/python setup.py build_ext --inplace -j 16', timeout=1800)
    return rc == 0, out[-400:]


def main():
    prop, sdir, sid = sys.argv[1:4]
    suite = '--no-suite' not in sys.argv
    ensure_wt()
    patch = os.path.join(sdir, 'patch.diff')
    demo = os.path.join(sdir, 'demo.py')
    meta = dict(property=prop, seed_id=sid, source='independent sub-agent given only the property text and a scratch worktree',
                verified_at=time.strftime('%Y-%m-%d %H:%M:%S'),
                head=subprocess.check_output(['git', '-C', '/repo', 'rev-parse', '--short', 'HEAD'], text=True).strip())
    note = os.path.join(sdir, 'note.txt')
    meta['note'] = open(note).read() if os.path.exists(note) else ''
    touched = re.findall(r'^\+\+\+ b/(\S+)', open(patch).read(), re.M)
    meta['files'] = touched
    cython = any(f.endswith(('.pyx', '.pxd')) for f in touched)
    rc, out = sh('/venv/bin/python %s' % demo)
    meta['demo_clean_exit'] = rc
    if rc != 0:
        meta['verdict'] = 'rejected: demo fails on the clean tree'
        meta['demo_clean_tail'] = out[-600:]
        return finish(meta, sdir, sid, keep=False)
    rc, out = sh('git apply --whitespace=nowarn %s' % patch)
    if rc != 0:
        rc, out = sh('git apply --3way --whitespace=nowarn %s' % patch)
    if rc != 0:
        meta['verdict'] = 'rejected: patch does not apply to current HEAD: ' + out[-300:]
        sh('git checkout -- . && git reset -q')
        return finish(meta, sdir, sid, keep=False)
    try:
        if cython:
            ok, tail = build()
            if not ok:
                meta['verdict'] = 'rejected: does not build: ' + tail
                return finish(meta, sdir, sid, keep=False)
        rc, out = sh('/venv/bin/python %s' % demo)
        meta['demo_patched_exit'] = rc
        meta['demo_patched_tail'] = out[-500:]
        if rc == 0:
            meta['verdict'] = 'rejected: demo passes with the change applied'
            return finish(meta, sdir, sid, keep=False)
        if suite:
            rc, out = sh('/venv/bin/python -m pytest -q -p no:cacheprovider --timeout=900 --continue-on-collection-errors -n 10 2>&1 | tail -8', timeout=7200)
            meta['suite_tail'] = out[-500:]
            failed = re.findall(r'^FAILED (\S+)', out, re.M)
            still = []
            for t in failed:      # re-run failures alone: the suite has a load-sensitive test
                rc2, out2 = sh('/venv/bin/python -m pytest -q -p no:cacheprovider --timeout=900 "%s" 2>&1 | tail -3' % t)
                if ' passed' not in out2 or 'failed' in out2:
                    still.append(t)
            meta['suite_failed_then_rerun_alone'] = failed
            m = re.search(r'(\d+) passed', out)
            meta['suite_passed'] = int(m.group(1)) if m else None
            if still or not m:
                meta['verdict'] = 'rejected: existing tests fail with the change: %s' % still
                return finish(meta, sdir, sid, keep=False)
        # run the check against the patched tree
        env = dict(os.environ, VERIF_REPO=WT, VERIF_EVIDENCE_DIR=WT + '_evidence')
        rc, out = sh('./check %s --tier quick' % prop, cwd=VERIF, env=env)
        meta['check_exit'] = rc
        meta['check_reported'] = [l for l in out.splitlines() if re.search(r': C\d\d', l) and not l.startswith(('VIOLATION', 'KNOWN'))][:8]
        meta['detected'] = rc == 1
        meta['verdict'] = 'kept'
        return finish(meta, sdir, sid, keep=True)
    finally:
        sh('git checkout -- . && git reset -q')
        if cython:
            build()


def finish(meta, sdir, sid, keep):
    out = os.path.join(VERIF, 'seeded' if keep else 'seeded_rejected', sid)
    os.makedirs(out, exist_ok=True)
    for f in ('patch.diff', 'demo.py'):
        if os.path.exists(os.path.join(sdir, f)):
            shutil.copy(os.path.join(sdir, f), os.path.join(out, f))
    meta['what_ran'] = ('demo.py on clean and patched scratch worktree; full pytest suite with the patch (-n 10, failures re-run alone); '
                        './check %s with VERIF_REPO=<patched worktree>' % meta['property'])
    json.dump(meta, open(os.path.join(out, 'meta.json'), 'w'), indent=1)
    print(json.dumps({k: meta.get(k) for k in ('seed_id', 'verdict', 'detected', 'check_exit', 'check_reported', 'suite_passed')}, indent=1))


if __name__ == '__main__':
    main()
