#!/bin/sh
# usage: seed_queue7.sh LANE PROP...  -- seventh-round seeds /tmp/seed7/<PROP>/out/1..3 verified as <PROP>-s16..s18 in worktree /tmp/seedv<LANE>
LANE="$1"; shift
for PROP in "$@"; do
  for k in 1 2 3; do
    OUT=/tmp/seed7/$PROP/out/$k
    if [ -f "$OUT/patch.diff" ] && [ -f "$OUT/demo.py" ] && [ ! -d /verif/seeded/$PROP-s$((k+15)) ] && [ ! -d /verif/seeded_rejected/$PROP-s$((k+15)) ]; then
      SEEDV_WT=/tmp/seedv$LANE /venv/bin/python /verif/tools/seed_verify.py "$PROP" "$OUT" "$PROP-s$((k+15))"
    fi
  done
done
